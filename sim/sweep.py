"""Engine S - stratified pre-emption sweep.

The random engines place pre-emption points at random; a window that is one
source line wide inside a call of 30 000 lines is then hit about never.  This
engine takes one callable A at a time (seeded arguments), an intruder B that
shares rarely used code with A (or A itself), and runs the pair once per
*boundary* k of A - every entry into and every return from a pymeeus function
during A - with B nested at that boundary.  Every callable is swept twice: cold
(A is the first call of the process) and warm (A was called once before, with
equal arguments).  Quick samples a few boundaries
per callable; thorough visits every boundary of every callable it can build
from scratch.  Each (A, B, k) is an ordinary replayable plan, executed and
judged by the same machinery as every other run.
"""
import copy
import random

from . import runner
from .catalogue import ENTRIES
from .source import GenSource, ReplaySource, NAMES, mix

SWEEP_OFFSET = 3 * 10 ** 9


class _StubSim(object):
    """What GenSource needs from a simulation while arguments are generated."""

    def __init__(self):
        from .pool import Pool
        self.pool = Pool()
        self.tcur = []

    def count(self, k, n=1):
        pass

    def inflight_tasks(self):
        return []


def _with_receiver(rs, name_a):
    """(runs in a fork) execute three constructor calls of A's class, then generate A against that pool."""
    from .engine import Sim
    from . import clock
    b = runner.BOOT
    src = GenSource(rs ^ 0x5bd1e995, 'H', b['steps'], b['funcs'], b['calls'])
    src.hammer = None
    for k in ('p_repeat', 'p_life', 'p_cancel', 'p_check', 'p_alias'):
        src.cfg[k] = 0.0
    clock.set_zone(clock.zone_name(src.cfg['zone_min']))
    clock.CLOCK.now = src.cfg['start']
    sim = Sim(src, b['import_digest'], b['import_names'])
    kind = name_a.split('.')[0]
    ctor = kind + '.__init__'
    if ctor not in ENTRIES:
        return None
    prefix = []
    for _ in range(3):
        op = src._make_named(sim, 0, 0, ctor)
        if op is None:
            continue
        op['points'], op['cpoints'] = [], []
        sim.run_op(op, 0)
        prefix.append(op)
    src.queues = {}
    for _ in range(6):
        a = src._make_named(sim, 0, 0, name_a)
        if a is not None:
            # an intruder of the same callable, on the objects of the same pool (other arguments)
            b_same = None
            if ENTRIES[name_a].effect == 'pure':
                for _ in range(4):
                    src.queues = {}
                    b_same = src._make_named(sim, 1, 1, name_a)
                    if b_same is not None:
                        break
            return prefix, a, src.next_id, b_same
    return None


def build_pair(seed, idx):
    """Seeded (plan skeleton, number of boundaries of A) for pair number idx, or None."""
    b = runner.BOOT
    rs = mix(seed, SWEEP_OFFSET + idx)
    src = GenSource(rs, 'N', b['steps'], b['funcs'], b['calls'])
    src.hammer = None
    src.cfg['ntasks'] = 2
    src.cfg['p_repeat'] = 0.0
    src.cfg['p_life'] = 0.0
    src.cfg['share'] = 0.0
    rng = src.rng
    stub = _StubSim()
    name_a = NAMES[idx % len(NAMES)]
    # pair numbers beyond the catalogue are the WARM variants: A has already been called once, with equal
    # arguments, when the swept call starts (a memo's hit path, a table that exists, is only run then; the
    # cold variants run the first call of a process: lazy initialisation)
    warm = (idx // len(NAMES)) % 2 == 1
    if name_a.endswith('#bad'):
        return None
    a = None
    for _ in range(3):
        a = src._make_named(stub, 0, 0, name_a)
        if a is not None:
            break
    prefix = []
    b_same = None
    if a is None:
        # A needs a receiver (or another pooled object): build a few objects of its class first, in a fork
        try:
            got = runner.fork_call(_with_receiver, (rs, name_a), 120.0)
        except runner.HarnessError:
            got = None
        if got is None:
            return None      # left to the random engines
        prefix, a, nid, b_same = got
        src.next_id = nid
    name_b = src._affine(name_a) if rng.random() < (0.5 if warm else 0.8) else name_a
    bop = None
    if b_same is not None and name_b == name_a:
        bop = b_same
    cands = [name_b, name_a, src._affine(name_a), src._affine(name_a), name_a.split('.')[0] + '.__init__',
             'Coordinates.kepler_equation']
    for cand in cands:
        if bop is not None:
            break
        if cand.endswith('#bad') or cand not in ENTRIES:
            continue
        for _ in range(3):
            bop = src._make_named(stub, 1, 1, cand)     # the intruder is built from scratch (its own fresh objects)
            if bop is not None:
                break
        if bop is not None:
            break
    if bop is None:
        return None
    for op in (a, bop):
        op['points'] = []
        op['cpoints'] = []
    src.queues = {}
    if warm:
        w = copy.deepcopy(a)
        a['id'] = max([bop['id'], a['id']] + [o['id'] for o in prefix]) + 1
        src.next_id = a['id'] + 1
        prefix = prefix + [w]
    plan = {'version': 1, 'seed': rs, 'cfg': dict(src.cfg, engine='N', sweep=True), 'ops': prefix + [a]}
    nb = int(b['calls'].get(name_a, 0))
    return plan, bop, nb, name_a, bop['name']


def run_pair(job):
    """job = (seed, pair index, max boundaries per pair or 0 for all[, first boundary, last boundary])."""
    seed, idx, cap = job[:3]
    k_lo, k_hi = (job[3], job[4]) if len(job) > 4 else (1, None)
    out = {'idx': idx, 'engine': 'S', 'runs': 0, 'violations': [], 'digests': [], 'nontrivial': 0,
           'counters': {}, 'calls_by_name': {}, 'soft': [], 'rejects': [], 'steps': 0, 'sim_seconds': 0.0,
           'wall': 0.0, 'sched_keys': [], 'point_lines': [], 'harness_errors': 0, 'pair': None, 'nt_digests': []}
    try:
        built = build_pair(seed, idx)
    except runner.HarnessError:
        out['harness_errors'] += 1
        return out
    if built is None:
        return out
    plan, bop, nb, name_a, name_b = built
    out['pair'] = (name_a, name_b, nb)
    nb = max(nb, 2)
    ks = list(range(1, int(nb * 1.05) + 2))
    if cap and len(ks) > cap:
        ks = sorted(random.Random(mix(seed, SWEEP_OFFSET + 7 * idx + 1)).sample(ks, cap))
    if k_hi is not None:
        ks = [k for k in ks if k_lo <= k <= k_hi]
    sk, pl = set(), set()
    for k in ks:
        p = copy.deepcopy(plan)
        p['ops'][-1]['cpoints'] = [{'call': k, 'kind': 'nest', 'op': copy.deepcopy(bop)}]
        try:
            r = runner.run_plan(ReplaySource(p))
        except runner.HarnessError:
            out['harness_errors'] += 1
            continue
        out['runs'] += 1
        out['digests'].append(r['digest'])
        if r['counters'].get('fired.nest', 0):
            out['nontrivial'] += 1
            out['nt_digests'].append(r['digest'])
        for kk, v in r['counters'].items():
            out['counters'][kk] = out['counters'].get(kk, 0) + v
        for kk, v in r['calls_by_name'].items():
            out['calls_by_name'][kk] = out['calls_by_name'].get(kk, 0) + v
        out['steps'] += r['steps']
        out['wall'] += r['wall']
        for x in r['sched_keys']:
            sk.add(tuple(x))
        for x in r['point_lines']:
            pl.add(tuple(x))
        for v in r['violations']:
            v = dict(v)
            v['_plan'] = r['plan']
            v['_k'] = k
            out['violations'].append(v)
        if len(out['violations']) > 5:
            break
        if r['counters'].get('fired.nest', 0) == 0 and k > nb:
            break       # past the last boundary of A
    out['sched_keys'] = sorted(sk)
    out['point_lines'] = sorted(pl)
    return out
