"""Sensitivity self-test: plant one realistic, test-passing break at a time in a
SCRATCH COPY of /repo (never in /repo) and require the quick-size check to
report a VIOLATION with a replay that reproduces.  A mutant that passes is a
hole in the workload or the oracles."""
import json
import os
import shutil
import subprocess
import sys
import tempfile

HERE = os.path.dirname(os.path.dirname(os.path.abspath(__file__)))
REPO = os.environ.get('VERIF_REPO', '/repo')

# (id, file, [(old, new)], what it needs to manifest)
MUTANTS = [
    ('epoch-isub-inplace', 'Epoch.py', [("""            self = self - b
            return self""", """            self._jde = self._jde - b
            return self""")], 'any planet geocentric_position (epoch -= tau) or h -= x on an aliased Epoch'),
    ('angle-iadd-inplace', 'Angle.py', [("""        self = self + b
        return self""", """        self._deg = (self + b)._deg
        return self""")], 'precession with proper motion (start_ra += ...), or += on an aliased Angle'),
    ('arg-to-positive', 'Coordinates.py', [("""    lon = longitude.rad()
    lat = latitude.rad()
    eps = obliquity.rad()
    ra = atan2""", """    lon = longitude.to_positive().rad()
    lat = latitude.rad()
    eps = obliquity.rad()
    ra = atan2""")], 'ecliptical2equatorial with a negative longitude Angle'),
    ('conjunction-pop', 'Coordinates.py', [("""        alpha1_list = alpha1_list[:-1]  # Drop the last entry""",
                                             """        alpha1_list.pop()  # Drop the last entry""")],
     'planetary_conjunction given LISTS with an even number of entries'),
    ('interp-clear-shared', 'Interpolation.py', [("""        # Clean up the internal data tables
        self._x = []
        self._y = []
        self._table = []""", """        # Clean up the internal data tables
        del self._x[:]
        del self._y[:]
        del self._table[:]""")], 'copy an Interpolation, then set() the source or the copy: the other loses its data'),
    ('curvefit-clear-shared', 'CurveFitting.py', [("""        # Clean up the internal data tables and parameters
        self._x = []
        self._y = []""", """        # Clean up the internal data tables and parameters
        del self._x[:]
        del self._y[:]""")], 'copy a CurveFitting, then set() either one'),
    ('leap-memo-table', 'Epoch.py', [("""        return LEAP_TABLE[list_years[idx - 1]]""",
                                      """        LEAP_TABLE[lyear] = LEAP_TABLE[list_years[idx - 1]]  # remember it
        return LEAP_TABLE[lyear]""")], 'leap_seconds / utc=True for a 1972-2016 date: module table grows'),
    ('vsop-module-scratch', 'Coordinates.py', [("""def vsop_pos(epoch, vsop_l, vsop_b, vsop_r):""",
                                                """_scratch = []


def vsop_pos(epoch, vsop_l, vsop_b, vsop_r):"""),
                                               ("""    t = (epoch.jde() - 2451545.0) / 365250.0
    sum_list = []
    for i in range(len(vsop_l)):""", """    t = (epoch.jde() - 2451545.0) / 365250.0
    sum_list = _scratch
    del sum_list[:]
    for i in range(len(vsop_l)):""")],
     'two overlapping VSOP evaluations (pre-emption inside the longitude loop): only engines N/T'),
    ('arg-tolerance-restore', 'Coordinates.py', [("""    m = mean_anomaly.rad()
    ecc = eccentricity""", """    saved_tol = mean_anomaly.get_tolerance()
    mean_anomaly.set_tolerance(1e-6)
    m = mean_anomaly.rad()
    ecc = eccentricity"""), ("""    return e, Angle(v, radians=True)""", """    mean_anomaly.set_tolerance(saved_tol)
    return e, Angle(v, radians=True)""")],
     'pre-emption or cancellation inside kepler_equation (state is restored on normal return)'),
    ('result-cache-shared-object', 'Coordinates.py', [("""    t = Epoch.check_input_date(*args, **kwargs)
    # Let's redefine u in units of 100 Julian centuries from Epoch J2000.0
    u = """, """    t = Epoch.check_input_date(*args, **kwargs)
    if t.jde() in _obliquity_cache:
        return _obliquity_cache[t.jde()]
    # Let's redefine u in units of 100 Julian centuries from Epoch J2000.0
    u = """), ("""    delta = Angle(0, 0, delta)
    epsilon0 += delta
    return epsilon0""", """    delta = Angle(0, 0, delta)
    epsilon0 += delta
    _obliquity_cache[t.jde()] = epsilon0
    return epsilon0"""), ("""def mean_obliquity(*args, **kwargs):""", """_obliquity_cache = {}


def mean_obliquity(*args, **kwargs):""")],
     'mean_obliquity twice for one epoch with a documented mutator applied to the first result in between'),
    ('table-set-and-restore', 'Coordinates.py', [("""    deltapsi = 0.0
    for i, value in enumerate(NUTATION_SINE_COEF_TABLE):""", """    deltapsi = 0.0
    NUTATION_ARG_TABLE[0][4] = 1.0  # normalise leading term to float during the sum
    for i, value in enumerate(NUTATION_SINE_COEF_TABLE):"""), ("""    return Angle(0, 0, deltapsi)""",
                                                                   """    NUTATION_ARG_TABLE[0][4] = 1
    return Angle(0, 0, deltapsi)""")],
     'digest of the module table differs only while nutation_longitude is in flight or after it was cancelled'),
    ('utc2local-old', 'Epoch.py', [("""        now = time.time()
        local = calendar.timegm(time.localtime(now))
        utc = calendar.timegm(time.gmtime(now))
        return float(local - utc)""", """        localhour = datetime.datetime.now().hour
        utchour = datetime.datetime.utcnow().hour
        localminute = datetime.datetime.now().minute
        utcminute = datetime.datetime.utcnow().minute
        return ((localhour - utchour) * 3600.0
                + (localminute - utcminute) * 60.0)""")], 'zone != UTC with local date != UTC date, or a boundary between reads'),
    ('angle-set-list-old', 'Angle.py', [("""                    value = deg[0]
                    if "radians" in kwargs:
                        if kwargs["radians"]:
                            # Input value is in radians. Convert to degrees
                            value = degrees(value)
                    self._deg = Angle.reduce_deg(value)""", """                    if "radians" in kwargs:
                        if kwargs["radians"]:
                            # Input value is in radians. Convert to degrees
                            deg[0] = degrees(deg[0])
                    self._deg = Angle.reduce_deg(deg[0])""")], 'Angle([x], radians=True)'),
    ('jde2000-shifted', 'Sun.py', [("""        epoch += 0.00068""", """        epoch.set(epoch.jde() + 0.00068)""")],
     'Sun.ephemeris_physical_observations on a shared Epoch (or JDE2000 itself)'),
    ('clock-in-leap-seconds', 'Epoch.py', [("""        if (year + month / 12.0) >= list_years[-1]:
            return LEAP_TABLE[list_years[-1]]""", """        if (year + month / 12.0) >= list_years[-1]:
            # one more leap second is expected every ~18 months after the table ends
            extra = (min(year, datetime.date.today().year) - list_years[-1]) // 1.5
            return LEAP_TABLE[list_years[-1]] + int(max(0, extra) * 0)  # disabled until IERS confirms
        if year > datetime.date.today().year:
            return LEAP_TABLE[list_years[-1]]""")],
     'leap_seconds for 1972-2016 evaluated when the simulated clock is before that year'),
]


def make_scratch(mut):
    base = tempfile.mkdtemp(prefix='pymeeus-sens-', dir=os.environ.get('VERIF_SCRATCH', '/var/tmp'))
    shutil.copytree(os.path.join(REPO, 'pymeeus'), os.path.join(base, 'pymeeus'),
                    ignore=shutil.ignore_patterns('__pycache__'))
    mid, fn, subs, _ = mut
    p = os.path.join(base, 'pymeeus', fn)
    s = open(p).read()
    for old, new in subs:
        if s.count(old) < 1:
            raise RuntimeError('mutant %s: pattern not found in %s (code changed?)' % (mid, fn))
        s = s.replace(old, new, 1)
    open(p, 'w').write(s)
    return base


def run_tests(base):
    """The repo's own tests against the mutated copy (they must still pass)."""
    tdir = os.path.join(base, 'tests')
    shutil.copytree(os.path.join(REPO, 'tests'), tdir)
    r = subprocess.run([sys.executable, '-m', 'pytest', '-q', '-p', 'no:cacheprovider', '-x', '--deselect',
                        'tests/test_jupiterMoons.py::TestJupiterMoons::test_is_phenomena', 'tests'],
                       cwd=base, capture_output=True, text=True, env=dict(os.environ, PYTHONPATH=base))
    return r.returncode == 0, r.stdout[-300:]


def main(argv):
    want = [a for a in argv if not a.startswith('--')]
    with_tests = '--with-tests' in argv
    frac = '0.4'
    for a in argv:
        if a.startswith('--runs='):
            frac = a.split('=')[1]
    results = []
    ok_all = True
    for mut in MUTANTS:
        if want and mut[0] not in want:
            continue
        try:
            base = make_scratch(mut)
        except RuntimeError as e:
            # the pattern no longer exists: skip, never an alarm about pymeeus
            print('SKIP %s: %s' % (mut[0], e))
            results.append({'mutant': mut[0], 'skipped': str(e)})
            continue
        try:
            tests_ok = None
            if with_tests:
                tests_ok, tail = run_tests(base)
            out = os.path.join(base, 'out')
            env = dict(os.environ, VERIF_REPO=base, VERIF_OUT_DIR=out)
            r = subprocess.run([sys.executable, os.path.join(HERE, 'check'), 'quick', '--runs=' + frac],
                               capture_output=True, text=True, env=env)
            caught = r.returncode == 1 and 'VIOLATION property=C20' in r.stdout
            keys = sorted(set(line.strip().split(':')[0] for line in r.stdout.splitlines()
                              if line.startswith('  O')))
            print('%-28s %s tests_pass=%s  %s' % (mut[0], 'CAUGHT' if caught else 'MISSED (rc=%d)' % r.returncode,
                                                    tests_ok, '; '.join(keys)[:200]))
            if not caught:
                ok_all = False
                print(r.stdout[-600:])
            results.append({'mutant': mut[0], 'caught': caught, 'tests_pass': tests_ok, 'violations': keys,
                            'needs': mut[3]})
        finally:
            shutil.rmtree(base, ignore_errors=True)
        sys.stdout.flush()
    print(json.dumps({'sensitivity': results}, indent=0)[:0])
    print('sensitivity: %d/%d planted breaks caught' % (sum(1 for x in results if x.get('caught')),
                                                        sum(1 for x in results if 'caught' in x)))
    return 0 if ok_all else 2
