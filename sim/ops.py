"""Resolution and invocation of catalogue operations; shared by the simulated
pass and the solo reference so both call pymeeus in exactly the same way."""
import importlib
import math
import operator
import datetime as _dt

from . import snap as _snap

MODS = {}
CLASSES = {}


def load_pymeeus():
    """Import every pymeeus module (after the clock seam is installed)."""
    for n in _snap.MODULES:
        MODS[n] = importlib.import_module('pymeeus.' + n)
    CLASSES.update({
        'Angle': MODS['Angle'].Angle, 'Epoch': MODS['Epoch'].Epoch,
        'Interpolation': MODS['Interpolation'].Interpolation,
        'CurveFitting': MODS['CurveFitting'].CurveFitting,
        'Earth': MODS['Earth'].Earth, 'Ellipsoid': MODS['Earth'].Ellipsoid,
        'Minor': MODS['Minor'].Minor,
    })
    _snap.bind(CLASSES)
    return MODS


def resolve(path):
    """'Coordinates.mean_obliquity' | 'Epoch.Epoch.tt2ut' -> callable (or None)."""
    parts = path.split('.')
    o = MODS.get(parts[0])
    if o is None:
        return None
    for p in parts[1:]:
        o = getattr(o, p, None)
        if o is None:
            return None
    return o


# harness-side function menu for CurveFitting.general_fitting (picklable by name)
def fn_one(x):
    return 1.0


def fn_x(x):
    return x


def fn_x2(x):
    return x * x


def fn_sin(x):
    return math.sin(x)


def fn_cos(x):
    return math.cos(x)


FUNCS = {'one': fn_one, 'x': fn_x, 'x2': fn_x2, 'sin': fn_sin, 'cos': fn_cos}


def _rdiv(a, b):
    return b / a


OPERATORS = {
    'call0': lambda a: a(),
    'call1': lambda a, x: a(x),
    'str': str, 'repr': repr, 'float': float, 'int': int, 'hash': hash, 'len': len,
    'neg': operator.neg, 'abs': abs, 'round0': round, 'round': lambda a, n: round(a, n),
    'eq': operator.eq, 'ne': operator.ne, 'lt': operator.lt, 'le': operator.le,
    'gt': operator.gt, 'ge': operator.ge,
    'add': operator.add, 'sub': operator.sub, 'mul': operator.mul, 'truediv': operator.truediv,
    'mod': operator.mod, 'pow': operator.pow,
    'radd': lambda a, b: b + a, 'rsub': lambda a, b: b - a, 'rmul': lambda a, b: b * a,
    'rtruediv': _rdiv, 'rmod': lambda a, b: b % a, 'rpow': lambda a, b: b ** a,
    'iadd': operator.iadd, 'isub': operator.isub, 'imul': operator.imul,
    'itruediv': operator.itruediv, 'imod': operator.imod, 'ipow': operator.ipow,
}


def invoke(kind, target, recv, args, kwargs):
    """Perform one library call.  kind: call | meth | op | new."""
    if kind == 'call' or kind == 'new':
        f = resolve(target)
        return f(*args, **kwargs)
    if kind == 'meth':
        return getattr(recv, target)(*args, **kwargs)
    if kind == 'op':
        return OPERATORS[target](recv, *args)
    raise RuntimeError('bad kind ' + kind)


def available(kind, target):
    if kind in ('call', 'new'):
        return resolve(target) is not None
    if kind == 'meth':
        cls, _, attr = target.partition(':')
        return True
    return True


def make_date(v):
    return _dt.date(*v)


def make_datetime(v):
    return _dt.datetime(*v)
