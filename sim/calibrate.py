"""Measure line steps per catalogue entry (engine H runs) and write sim/steps.json.
The table only steers where pre-emption points are drawn; it is a committed
input of the generator, so runs stay a pure function of (seed, code, table)."""
import json
import multiprocessing as mp
import os
import statistics
from concurrent.futures import ProcessPoolExecutor

from . import runner
from .source import GenSource, mix


def _one(i):
    src = GenSource(mix(777, i), 'H', {})
    src.cfg['p_cancel'] = 0.0
    src.cfg['trace_funcs'] = True
    r = runner.run_plan(src)
    return [(x['name'], x['steps'], x['calls']) for x in r['records'] if x.get('outcome') in ('ok', 'exc')], r['funcs_by_name']


def main(argv):
    n = int(argv[0]) if argv else 1500
    runner.boot()
    per = {}
    funcs = {}
    calls = {}
    with ProcessPoolExecutor(16, mp_context=mp.get_context('fork'), initializer=runner.boot) as ex:
        for lst, fb in ex.map(_one, range(n), chunksize=8):
            for name, s, k in lst:
                per.setdefault(name, []).append(s)
                calls.setdefault(name, []).append(k)
            for name, fs in fb.items():
                funcs.setdefault(name, set()).update(fs)
    out = {k: int(statistics.median(v)) for k, v in sorted(per.items()) if v}
    p = os.path.join(os.path.dirname(__file__), 'steps.json')
    with open(p, 'w') as f:
        json.dump(out, f, indent=0, sort_keys=True)
    with open(os.path.join(os.path.dirname(__file__), 'calls.json'), 'w') as f:
        json.dump({k: int(statistics.median(v)) for k, v in sorted(calls.items()) if v}, f, indent=0, sort_keys=True)
    with open(os.path.join(os.path.dirname(__file__), 'funcs.json'), 'w') as f:
        json.dump(dict((k, sorted(v)) for k, v in sorted(funcs.items())), f, indent=0, sort_keys=True)
    from .catalogue import ENTRIES
    missing = sorted(set(ENTRIES) - set(out))
    print('calibrated %d entries (%d never completed: %s)' % (len(out), len(missing), missing[:20]))
    return 0
