"""Decision sources.  GenSource draws every decision from ONE random.Random;
ReplaySource reads the same decisions back from a recorded plan.  The engines
only ever talk to this interface, so a replay is a pure function of the file."""
import copy
import random

from .catalogue import ENTRIES
from .gen import G
from . import ops

CANCEL_KINDS = ['SimCancelled', 'KeyboardInterrupt', 'MemoryError']
GROUPS = sorted(set(e.group for e in ENTRIES.values()))
NAMES = sorted(ENTRIES)


def mix(seed, idx):
    """64-bit mix of (VERIF_SEED, run index) -> run seed."""
    x = (seed * 0x9E3779B97F4A7C15 + idx * 0xBF58476D1CE4E5B9 + 0x94D049BB133111EB) & 0xFFFFFFFFFFFFFFFF
    x ^= x >> 30
    x = (x * 0xBF58476D1CE4E5B9) & 0xFFFFFFFFFFFFFFFF
    x ^= x >> 27
    x = (x * 0x94D049BB133111EB) & 0xFFFFFFFFFFFFFFFF
    x ^= x >> 31
    return x


def draw_cfg(rng, engine, deep=False):
    """Per-run configuration (swarm style)."""
    zone = 0
    r = rng.random()
    if r < 0.25:
        zone = 0
    elif r < 0.85:
        zone = rng.randint(-12, 14) * 60
    else:
        zone = rng.choice([-570, -210, 210, 270, 330, 345, 390, 525, 570, 765])
    # start instant: 1971..2037, biased to the last/first minutes of an hour / day
    day = rng.randint(400, 24000)
    r = rng.random()
    if r < 0.35:
        sec = rng.uniform(0, 86400)
    elif r < 0.6:
        sec = rng.randint(0, 23) * 3600 + rng.choice([rng.uniform(3590, 3600), rng.uniform(0, 10)])
    elif r < 0.8:
        sec = rng.choice([rng.uniform(86340, 86400), rng.uniform(0, 60)])
    else:
        # local-day boundary for the chosen zone
        sec = (-zone * 60 + rng.choice([rng.uniform(-60, 0), rng.uniform(0, 60)])) % 86400
    start = day * 86400.0 + sec
    solo = rng.randint(400, 24000) * 86400.0 + rng.uniform(0, 86400)
    kinds = ['tick']
    for k, p in (('straddle', 0.6), ('step', 0.5), ('jump', 0.3), ('stall', 0.4)):
        if rng.random() < p:
            kinds.append(k)
    focus = rng.sample(GROUPS, rng.randint(1, 4))
    cfg = {
        'engine': engine,
        'zone_min': zone,
        'start': start,
        'solo_time': solo,
        'ntasks': 1 if engine == 'H' else rng.randint(2, 4),
        'nops': rng.randint(8, 40),
        'clock_kinds': kinds,
        'p_clock_fault': rng.choice([0.2, 0.5, 0.8]),
        'focus': focus,
        'focus_gain': rng.choice([1.0, 3.0, 8.0]),
        'heavy_scale': rng.choice([0.2, 0.6, 1.0]),
        'share': rng.choice([0.3, 0.6, 0.85]),
        'p_nest': 0.0 if engine == 'H' else rng.choice([0.3, 0.6, 0.9]),
        'p_cancel': rng.choice([0.0, 0.05, 0.15]),
        'p_check': rng.choice([0.1, 0.3]),
        'p_alias': rng.choice([0.03, 0.08, 0.15]),
        'yield_mean': rng.choice([30, 200, 1500, 8000]),
        'p_same': rng.choice([0.0, 0.15, 0.4]),
        'p_life': rng.choice([0.0, 0.1, 0.3]),
        'hstride': 512,
        'rslots': 64,
        'deep': bool(deep),
        'p_repeat': rng.choice([0.0, 0.08, 0.2, 0.35]),
        'p_scan': rng.choice([0.0, 0.05, 0.15, 0.3]),
    }
    if deep:
        # deeper variant used by a quarter of the thorough runs: more callers, longer histories, and (engine N)
        # a third call nested inside the second
        if engine != 'H':
            cfg['ntasks'] = rng.randint(3, 6)
        cfg['nops'] = rng.randint(40, 100)
        if engine == 'N':
            cfg['p_nest'] = rng.choice([0.6, 0.9])
    return cfg


class OnlyPool(object):
    """View of the pool in which objects of one kind are restricted to a single object (the
    generators then pick it as receiver / argument): used to script the life of one object."""

    def __init__(self, pool, kind, hid):
        self.pool, self.kind, self.hid = pool, kind, hid
        self.receiver_chosen = False     # once a receiver was drawn through mutable()/own(), arguments are free

    def _f(self, kind, lst):
        if kind != self.kind:
            return lst
        o = self.pool.handles.get(self.hid)
        return [(h, x) for h, x in lst if x is o]

    def candidates(self, kind):
        if self.receiver_chosen:
            return self.pool.candidates(kind)
        return self._f(kind, self.pool.candidates(kind))

    def mutable(self, kind, task):
        r = self._f(kind, self.pool.mutable(kind, task))
        if kind == self.kind and r:
            self.receiver_chosen = True
        return r

    def own(self, kind, task):
        r = self._f(kind, self.pool.own(kind, task))
        if kind == self.kind and r:
            self.receiver_chosen = True
        return r

    def minor_info(self, hid):
        return self.pool.minor_info(hid)

    def is_copyrel(self, obj):
        return self.pool.is_copyrel(obj)


SCAN_MAX_STEPS = 400      # only cheap calls are scanned (a scan is up to 12 calls)
LIFE_KINDS = ('Interpolation', 'CurveFitting', 'Angle', 'Epoch', 'Earth', 'Minor')


class GenSource(object):
    mode = 'gen'

    def __init__(self, seed, engine, steps_table=None, funcs=None, calls_table=None, deep=False):
        self.seed = seed
        self.rng = random.Random(seed)
        self.cfg = draw_cfg(self.rng, engine, deep)
        self.steps_table = steps_table or {}
        self.calls_table = calls_table or {}
        self.next_id = 1
        self.made = 0
        self.queues = {}
        self.want_name = None
        self.last_mutated = None
        self.life_same = {}
        self.last_build = {}      # handle -> core of the constructor / set() call the object was last built with
        # hammer runs (1 run in 16): one cheap callable asked a few hundred times, alternately with exactly the
        # same arguments and with fresh ones - counters, budgets, cache-size thresholds and evictions only show then
        self.hammer = None
        self.hammer_spec = None
        if self.rng.random() < 1.0 / 20:
            cheap = [n for n in NAMES if self.est(n) < 600 and ENTRIES[n].effect == 'pure']
            self.hammer = self.rng.choice(cheap)
            self.cfg["nops"] = self.rng.randint(120, 300)
            self.cfg['hammer'] = self.hammer
        # affinity: which catalogue entries enter which pymeeus functions (measured by ./check calibrate);
        # used to make overlapping calls share code, which is where per-function scratch state would bite
        self.funcs = funcs or {}
        idx = {}
        for n in sorted(self.funcs):
            if n in ENTRIES:
                for f in self.funcs[n]:
                    idx.setdefault(f, []).append(n)
        self.fidx = dict((f, v) for f, v in idx.items() if 2 <= len(v) <= 60)
        w = []
        for n in NAMES:
            e = ENTRIES[n]
            x = e.weight
            if e.group in self.cfg['focus']:
                x *= self.cfg['focus_gain']
            if self.est(n) > 3000:
                x *= self.cfg['heavy_scale']
            w.append(x)
        self.weights = w

    def est(self, name):
        return int(self.steps_table.get(name, ENTRIES[name].cost))

    # ---- operations
    def _clock_script(self):
        rng, cfg = self.rng, self.cfg
        script = []
        n = rng.randint(2, 6)
        for _ in range(n):
            if rng.random() >= cfg['p_clock_fault']:
                script.append(['tick', 10 ** rng.uniform(-6, -2.3)])
                continue
            k = rng.choice(cfg['clock_kinds'])
            if k == 'tick':
                script.append(['tick', 10 ** rng.uniform(-6, -2.3)])
            elif k == 'stall':
                script.append(['stall', 0.0])
            elif k == 'step':
                script.append(['step', rng.choice([-1, 1]) * 10 ** rng.uniform(0, 4.3)])
            elif k == 'jump':
                script.append(['jump', rng.choice([-1, 1]) * 86400.0 * 10 ** rng.uniform(0, 3.5)])
            elif k == 'straddle':
                period = rng.choice([60, 60, 3600, 3600, 86400])
                eps = 10 ** rng.uniform(-5, -2)
                off = rng.choice([0, cfg['zone_min'] * 60])
                script.append(['straddle', [period, eps, off]])
                script.append(['tick', 2.5 * eps])
        return script

    def _mutate_result(self, sim, task, op_id, hids=None):
        """A documented mutator applied by the caller to an object it received from op_id (or, with
        hids, to one of the objects it passed to op_id as arguments)."""
        HSTRIDE = self.cfg['hstride']
        pool, rng = sim.pool, self.rng
        c = []
        for kind in ('Angle', 'Epoch'):
            for h, o in pool.mutable(kind, task):
                if hids is not None:
                    if any(pool.handles.get(x) is o for x in hids):
                        c.append((h, kind))
                elif op_id * HSTRIDE <= h < op_id * HSTRIDE + self.cfg['rslots']:
                    c.append((h, kind))
        if not c:
            return None
        h, kind = c[rng.randrange(len(c))]
        g = G(rng, pool, task, 0.0)
        if hids is not None:
            # re-target an ARGUMENT of an earlier call only slightly: the repeated call must stay inside the
            # conservative domain its generator chose (any change at all is visible bit for bit)
            o = pool.handles[h]
            self.last_mutated = o          # (a reference, not an id: ids are reused once an object dies)
            if kind == 'Angle':
                x = float(o)
                return {'name': 'Angle.set', 'recv': {'h': h},
                        'args': [g.fv(x + rng.choice([-1, 1]) * rng.choice([1e-9, 1e-6, 1e-4]))], 'kwargs': {}}
            return {'name': 'Epoch.set', 'recv': {'h': h},
                    'args': [g.fv(o.jde() + rng.choice([-1, 1]) * rng.choice([1e-5, 1e-2, 0.4]))], 'kwargs': {}}
        if kind == 'Angle':
            r = rng.random()
            if r < 0.4:
                return {'name': 'Angle.set', 'recv': {'h': h}, 'args': [g.num(-359, 359)], 'kwargs': {}}
            if r < 0.7:
                return {'name': 'Angle.to_positive', 'recv': {'h': h}, 'args': [], 'kwargs': {}}
            if r < 0.85:
                return {'name': 'Angle.set_tolerance', 'recv': {'h': h}, 'args': [g.fv(10 ** rng.uniform(-6, -1))], 'kwargs': {}}
            return {'name': 'Angle.set_radians', 'recv': {'h': h}, 'args': [g.num(-6, 6)], 'kwargs': {}}
        return {'name': 'Epoch.set', 'recv': {'h': h}, 'args': [g.f(2.0e6, 2.9e6)], 'kwargs': {}}

    @staticmethod
    def _core(val):
        return dict((k, copy.deepcopy(val[k])) for k in ('name', 'recv', 'args', 'kwargs'))

    def _args_unchanged(self, sim, val):
        """A queued repeat is only issued if every pooled object it refers to still holds the value it had at the
        first call (apart from the one object the script itself re-targeted slightly): another task may have
        applied a documented mutator in between, and the generator's domain choice was made for the old value."""
        from .snap import snap
        for hid, s0 in (val.get('_snaps') or {}).items():
            o = sim.pool.handles.get(hid)
            if o is None:
                return False
            if snap(o) != s0 and o is not self.last_mutated:
                return False
        return True

    def _snaps(self, sim, rep):
        from .snap import snap
        out = {}

        def walk(e):
            if isinstance(e, dict):
                if 'h' in e and e['h'] in sim.pool.handles:
                    out[e['h']] = snap(sim.pool.handles[e['h']])
                for x in e.get('items', ()):
                    walk(x)
        for x in [rep.get('recv')] + list(rep['args']) + list(rep['kwargs'].values()):
            if x:
                walk(x)
        rep['_snaps'] = out

    def _push_scan(self, sim, q, core):
        """A caller loops: the same call for a run of consecutive values of one integer argument (every month of a
        year, a few years around a date), inside the range the generator drew it from, in seeded order.  A memo keyed
        on something coarser than the argument answers one of them with a neighbour's value."""
        rng = self.rng
        leaves = []

        def walk(e, path):
            if isinstance(e, dict):
                if 'i' in e and 'lo' in e and not isinstance(e['i'], bool) and e['hi'] - e['lo'] >= 2:
                    leaves.append(path)
                elif 'mk' in e:
                    for j, x in enumerate(e['items']):
                        walk(x, path + ['items', j])
        for j, x in enumerate(core['args']):
            walk(x, ['args', j])
        for k in core['kwargs']:
            walk(core['kwargs'][k], ['kwargs', k])
        if not leaves:
            return
        path = leaves[rng.randrange(len(leaves))]
        e = core
        for k in path:
            e = e[k]
        lo, hi, v = e['lo'], e['hi'], e['i']
        n = rng.randint(3, 12)
        start = v - rng.randint(0, n - 1)
        start = max(lo, min(start, hi - n + 1))
        vals = [x for x in range(start, start + n) if lo <= x <= hi]
        r = rng.random()
        if r < 0.5:
            rng.shuffle(vals)
        elif r < 0.75:
            vals.reverse()
        for x in vals:
            rep = self._core(core)
            t = rep
            for k in path:
                t = t[k]
            t['i'] = x
            self._snaps(sim, rep)
            q.append(('scan', rep))

    def _perturb(self, core, tiny=False):
        """Neighbouring arguments: one numeric literal (or the value of one inline Angle/Epoch) moved a little.
        A cache keyed on too little answers the neighbour with the first call's value."""
        rng = self.rng
        leaves = []

        def walk(e):
            if isinstance(e, dict):
                if 'i' in e and not isinstance(e['i'], bool):
                    # integer neighbours (next month, next year, one more decimal) only where every integer is
                    # either accepted or rejected with ValueError: indices into fixed tables are left alone
                    if not tiny and ENTRIES[core['name']].group in ('Epoch', 'Angle', 'Sun', 'Coordinates', 'base'):
                        leaves.append(('i', e))
                elif 'f' in e:
                    leaves.append(('f', e))
                elif 'new' in e:
                    leaves.append(('v', e))
                elif 'mk' in e:
                    for x in e['items']:
                        walk(x)
        for x in [core.get('recv')] + list(core['args']) + list(core['kwargs'].values()):
            if x:
                walk(x)
        if leaves:
            k, e = leaves[rng.randrange(len(leaves))]
            if k == 'i':
                if rng.random() < 0.4:
                    # type neighbour: the same number as a float (accepted by most callables, rejected with
                    # TypeError by a few; either way the answer must not depend on what was asked before)
                    e['f'] = float(e.pop('i')).hex()
                else:
                    e['i'] = e['i'] + rng.choice([-1, 1])
            elif k == 'f':
                x = float.fromhex(e['f'])
                # small moves only: the neighbour must stay inside the conservative domain the generator chose
                # (some routines iterate without a bound on inputs far from their documented examples)
                e['f'] = float(x * (1.0 + rng.choice([-1, 1]) * rng.choice([1e-13, 1e-12] if tiny else
                                                                           [1e-12, 1e-9, 1e-6]))).hex()
            else:
                x = float.fromhex(e['v'])
                if tiny:
                    d = rng.choice([1e-12, 3e-11]) if e['new'] == 'Angle' else rng.choice([1e-8, 1e-7])
                else:
                    d = rng.choice([1e-10, 1e-7, 1e-5]) if e['new'] == 'Angle' else rng.choice([1e-6, 1e-3, 0.3])
                e['v'] = float(x + rng.choice([-1, 1]) * d).hex()
        return core

    def _edit_list(self, sim, task, op_id):
        """The caller edits one numeric leaf of a list it built for op_id."""
        HSTRIDE = self.cfg['hstride']
        pool, rng = sim.pool, self.rng
        c = []
        for h in sorted(pool.handles):
            if op_id * HSTRIDE + self.cfg['rslots'] <= h < (op_id + 1) * HSTRIDE and pool.owner.get(h) == task:
                o = pool.handles[h]
                if isinstance(o, list):
                    paths = []

                    def walk(x, p, d):
                        for i, y in enumerate(x):
                            if isinstance(y, bool):
                                continue
                            if isinstance(y, (int, float)):
                                paths.append(p + [i])
                            elif isinstance(y, list) and d < 3:
                                walk(y, p + [i], d + 1)
                    walk(o, [], 0)
                    if paths:
                        c.append((h, paths))
        if not c:
            return None
        h, paths = c[rng.randrange(len(c))]
        path = paths[rng.randrange(len(paths))]
        o = pool.handles[h]
        for i in path:
            o = o[i]
        new = float(o) * rng.choice([0.5, 0.9, 1.1, 2.0]) + rng.choice([-1.0, 0.25, 3.0])
        return {'name': '@edit_list', 'recv': None, 'args': [{'h': h}], 'kwargs': {}, 'path': path,
                'value': float(new).hex()}

    def _make_named(self, sim, task, depth, name, only=None):
        e = ENTRIES.get(name)
        if e is None or not ops.available(e.kind, e.target):
            return None
        if only is None:
            g = G(self.rng, sim.pool, task, self.cfg['share'])
        else:
            g = G(self.rng, OnlyPool(sim.pool, only[0], only[1]), task, 1.0)
        r = e.gen(g)
        if r is None:
            return None
        if only is not None and not (r[0] and r[0].get('h') is not None and
                                     sim.pool.handles.get(r[0]['h']) is sim.pool.handles.get(only[1])):
            return None      # the generator did not take the scripted object as receiver
        return self._finish({'name': name, 'recv': r[0], 'args': r[1], 'kwargs': r[2]}, task, depth)

    def _push_life(self, q, kind_, hid, front=False):
        rng = self.rng
        uses = [n for n in NAMES if n.startswith(kind_ + '.') and ENTRIES[n].kind in ('meth', 'op') and
                ENTRIES[n].effect == 'pure' and not n.endswith('#bad')]
        same = 'AUTO' if uses and rng.random() < 0.7 else None   # observe the SAME thing before/after (an observer
        #                                                           that can be generated for this very object)
        pat = rng.choice([['use', 'change', 'use'], ['use', 'use', 'change', 'use', 'use'],
                          ['change', 'use'], ['use', 'change', 'change', 'use'], ['use'] * rng.randint(5, 9)])
        if len(pat) >= 5 and pat.count('use') == len(pat) and same is None and uses:
            same = 'AUTO'               # the same question asked many times: counters, budgets, evictions
        steps = [('life', (w, kind_, hid, same if w == 'use' else None)) for w in pat]
        if front:
            q[0:0] = steps
        else:
            q.extend(steps)

    def _life_step(self, sim, task, depth, what, kind, hid, fixed=None):
        """One scripted step in the life of object hid: 'use' (a pure method) or 'change' (a documented mutator)."""
        if hid not in sim.pool.handles:
            return None
        names = [n for n in NAMES if n.startswith(kind + '.') and ENTRIES[n].kind in ('meth', 'op') and
                 (ENTRIES[n].effect == 'pure') == (what == 'use') and ENTRIES[n].effect != 'rebind' and
                 not n.endswith('#bad')]
        if what == 'change' and hid in self.last_build and (kind + '.set') in ENTRIES and self.rng.random() < 0.3:
            # re-set: set() with the values the object was last built from, one of them moved by less than any
            # tolerance the library uses (a "nothing changed, skip the work" shortcut must not be taken)
            src = self.last_build[hid]
            core = self._perturb({'name': kind + '.set', 'recv': {'h': hid}, 'args': copy.deepcopy(src['args']),
                                  'kwargs': copy.deepcopy(src['kwargs'])}, tiny=True)
            sim.count('probe.scripted_object_life_reset_with_nearly_equal_values')
            return self._finish(core, task, depth)
        if fixed == 'AUTO':
            fixed = self.life_same.get(hid)
            if fixed is None:
                order = list(names)
                self.rng.shuffle(order)
                for nm in order[:12]:
                    op = self._make_named(sim, task, depth, nm, (kind, hid))
                    if op is not None:
                        self.life_same[hid] = nm
                        sim.count('probe.scripted_object_life_' + what)
                        return op
                return None
        if fixed is not None:
            names = [fixed] * 2 + names
        for k in range(5):
            if not names:
                return None
            nm = fixed if (fixed is not None and k < 2) else self.rng.choice(names)
            op = self._make_named(sim, task, depth, nm, (kind, hid))
            if op is not None:
                sim.count('probe.scripted_object_life_' + what)
                return op
        return None

    def make_op(self, sim, task, depth):
        rng = self.rng
        pool = sim.pool
        q = self.queues.setdefault(task, [])
        while q:
            what, val = q.pop(0)
            if what == 'mutate':
                op = self._mutate_result(sim, task, val)
                if op is not None:
                    sim.count('probe.mutator_on_fresh_result_then_repeat')
                    return self._finish(op, task, depth)
            elif what == 'mutate_arg':
                op = self._mutate_result(sim, task, None, val)
                if op is not None:
                    sim.count('probe.mutator_on_argument_then_repeat')
                    return self._finish(op, task, depth)
            elif what == 'near':
                if not self._args_unchanged(sim, val):
                    continue
                sim.count('probe.call_repeated_with_neighbouring_arguments')
                return self._finish(self._perturb(self._core(val)), task, depth)
            elif what == 'scan':
                if not self._args_unchanged(sim, val):
                    continue
                sim.count('probe.scan_step_over_consecutive_integer_arguments')
                return self._finish(self._core(val), task, depth)
            elif what == 'edit':
                op = self._edit_list(sim, task, val)
                if op is not None:
                    return self._finish(op, task, depth)
            elif what == 'repeat':
                if not self._args_unchanged(sim, val):
                    continue
                sim.count('probe.call_repeated_with_equal_arguments')
                return self._finish(self._core(val), task, depth)
            elif what == 'life_any':
                # script the life of one of the objects the caller received from op `val`
                hs, rs = self.cfg['hstride'], self.cfg['rslots']
                c = []
                for h in sorted(pool.handles):
                    if val * hs <= h < val * hs + rs and pool.owner.get(h) == task:
                        inf = pool.infoof(pool.handles[h])
                        if inf is not None and inf.kind in LIFE_KINDS and not inf.frozen and not inf.const:
                            c.append((h, inf.kind))
                if c:
                    h, kind_ = c[rng.randrange(len(c))]
                    self._push_life(q, kind_, h, front=True)
            elif what == 'life':
                op = self._life_step(sim, task, depth, *val)
                if op is not None:
                    return op
            elif what == 'again':
                op = self._make_named(sim, task, depth, val)
                if op is not None:
                    sim.count('probe.same_callable_again_with_other_arguments')
                    return op
        if self.hammer is not None and depth == 0 and rng.random() < 0.75:
            if self.hammer_spec is not None and rng.random() < 0.6 and self._args_unchanged(sim, self.hammer_spec):
                sim.count('probe.hammer_same_arguments')
                return self._finish(self._core(self.hammer_spec), task, depth)
            op = self._make_named(sim, task, depth, self.hammer)
            if op is not None:
                sim.count('probe.hammer_fresh_arguments')
                if self.hammer_spec is None or rng.random() < 0.1:
                    self.hammer_spec = dict((k, copy.deepcopy(op[k])) for k in ('name', 'recv', 'args', 'kwargs'))
                    self._snaps(sim, self.hammer_spec)
                return op
        if self.want_name is not None:
            name, self.want_name = self.want_name, None
            op = self._make_named(sim, task, depth, name)
            if op is not None:
                sim.count('probe.same_callable_overlapping')
                return op
        if rng.random() < self.cfg['p_alias']:
            c = []
            for k in ('Angle', 'Epoch', 'Epoch', 'Ellipsoid'):
                c += pool.candidates(k)
            if c:
                h, o = c[rng.randrange(len(c))]
                return self._finish({'name': '@alias', 'recv': None, 'args': [{'h': h}], 'kwargs': {}}, task, depth)
        for _ in range(12):
            name = rng.choices(NAMES, self.weights)[0]
            e = ENTRIES[name]
            if not ops.available(e.kind, e.target):
                sim.count('entry_unavailable')
                continue
            g = G(rng, pool, task, self.cfg['share'])
            r = e.gen(g)
            if r is None:
                continue
            recv, args, kwargs = r
            for p in g.probes:
                sim.count('probe.' + p)
            core = {'name': name, 'recv': recv, 'args': args, 'kwargs': kwargs}
            op = self._finish(core, task, depth)
            if e.kind == 'new' and name.split('.')[0] in LIFE_KINDS and not name.endswith('#bad') and \
                    rng.random() < self.cfg['p_life'] * (3.0 if name.split('.')[0] in ('Interpolation', 'CurveFitting',
                                                                                      'Earth', 'Minor') else 1.0):
                kind_ = name.split('.')[0]
                hid = op['id'] * self.cfg['hstride']
                self._push_life(q, kind_, hid)
            elif e.effect == 'pure' and e.kind != 'new' and rng.random() < self.cfg['p_life'] * 0.6:
                q.append(('life_any', op['id']))
            if name.endswith('#copy') and e.kind == 'new' and args and 'h' in args[0] and rng.random() < 0.5:
                # after a copy: change ONE of source / copy with a documented mutator, then observe the OTHER
                kind_ = name.split('.')[0]
                a_, b_ = args[0]['h'], op['id'] * self.cfg['hstride']
                if rng.random() < 0.5:
                    a_, b_ = b_, a_
                uses = [n for n in NAMES if n.startswith(kind_ + '.') and ENTRIES[n].kind in ('meth', 'op') and
                        ENTRIES[n].effect == 'pure' and not n.endswith('#bad') and not n.endswith('@inst')]
                same = rng.choice(uses) if uses else None
                q.append(('life', ('use', kind_, b_, same)))
                q.append(('life', ('change', kind_, a_, None)))
                q.append(('life', ('use', kind_, b_, same)))
                q.append(('life', ('use', kind_, b_, None)))
            if e.effect == 'pure' and not name.endswith('#bad') and self.est(name) <= SCAN_MAX_STEPS and \
                    rng.random() < self.cfg.get('p_scan', 0.0):
                self._push_scan(sim, q, core)
            has_list = any(isinstance(x, dict) and x.get('mk') == 'list' for x in args)
            if e.effect == 'pure' and rng.random() < self.cfg['p_repeat']:
                rep = {'name': name, 'recv': copy.deepcopy(recv), 'args': copy.deepcopy(args),
                       'kwargs': copy.deepcopy(kwargs)}
                if has_list and rng.random() < 0.6:
                    # the caller edits one of the lists it passed, then calls again with the SAME list objects
                    rep['args'] = [{'h': op['id'] * self.cfg['hstride'] + self.cfg['rslots'] + x['slot']} if isinstance(x, dict) and 'mk' in x
                                   else x for x in rep['args']]
                    q.append(('edit', op['id']))
                else:
                    r2 = rng.random()
                    if r2 < 0.4:
                        q.append(('mutate', op['id']))
                    elif r2 < 0.75:
                        # the caller re-targets one of the Angle/Epoch objects it passed, then calls again with
                        # the SAME objects (inline objects are referred to by their handle)
                        hs, rs = self.cfg['hstride'], self.cfg['rslots']

                        def ref(x):
                            if isinstance(x, dict) and 'new' in x:
                                return {'h': op['id'] * hs + rs + x['slot']}
                            return x
                        rep['recv'] = ref(rep['recv'])
                        rep['args'] = [ref(x) for x in rep['args']]
                        rep['kwargs'] = dict((k, ref(v)) for k, v in rep['kwargs'].items())
                        hids = [x['h'] for x in [rep['recv']] + rep['args'] + list(rep['kwargs'].values())
                                if isinstance(x, dict) and 'h' in x]
                        if hids:
                            q.append(('mutate_arg', hids))
                self._snaps(sim, rep)
                r3 = rng.random()
                if r3 < 0.2:
                    q.append(('again', name))      # same callable, freshly generated arguments
                elif r3 < 0.55:
                    q.append(('near', rep))        # same callable, neighbouring arguments
                else:
                    q.append(('repeat', rep))
            elif has_list and e.effect in ('capture', 'mutator_capture') and rng.random() < 0.3:
                # the caller goes on using (editing) the list it handed to a constructor / set()
                q.append(('edit', op['id']))
            return op
        g = G(rng, pool, task, 0.0)
        a, k = g.angle_ctor_args()
        return self._finish({'name': 'Angle.__init__', 'recv': None, 'args': a, 'kwargs': k}, task, depth)

    def _finish(self, op, task, depth):
        rng, cfg = self.rng, self.cfg
        op['id'] = self.next_id
        self.next_id += 1
        nm = op['name']
        if nm.split('.')[0] in LIFE_KINDS and '#' not in nm and '@' not in nm:
            # how each scripted kind of object was last built (constructor or set()): the re-set step of a
            # scripted life gives set() the same values again, one of them moved by less than any tolerance
            if nm.endswith('.__init__'):
                self.last_build[op['id'] * cfg['hstride']] = self._core(op)
            elif nm.endswith('.set') and op.get('recv') and 'h' in op['recv']:
                self.last_build[op['recv']['h']] = self._core(op)
        op['task'] = task
        op['clock'] = self._clock_script()
        pts = []
        if not op['name'].startswith('@'):
            est = max(4, self.est(op['name']))

            def step():
                r = rng.random()
                if r < 0.15:
                    return rng.randint(1, min(est, 12))
                return rng.randint(1, int(est * 1.15) + 1)
            if depth == 0 and cfg['engine'] == 'N' and rng.random() < cfg['p_nest']:
                for _ in range(rng.choice([1, 1, 2, 3])):
                    pts.append({'step': step(), 'kind': 'nest'})
            if depth == 1 and cfg['engine'] == 'N' and cfg.get('deep') and rng.random() < 0.3:
                pts.append({'step': step(), 'kind': 'nest'})
            if cfg['engine'] == 'T' and depth == 0:
                s = 0
                for _ in range(40):
                    s += max(1, int(rng.expovariate(1.0 / cfg['yield_mean'])))
                    if s > est * 1.15:
                        break
                    pts.append({'step': s, 'kind': 'yield'})
            if rng.random() < cfg['p_check']:
                pts.append({'step': step(), 'kind': 'check'})
            if rng.random() < cfg['p_cancel']:
                pts.append({'step': step(), 'kind': 'cancel', 'exc': rng.choice(CANCEL_KINDS)})
            # half of the fault points are located by the k-th ENTRY INTO A PYMEEUS FUNCTION instead of the
            # k-th line: uniform over calls reaches the short, rarely executed parts of a long computation
            # (line steps are dominated by the big series loops)
            ncalls = int(self.calls_table.get(op['name'], 0))
            cps = []
            if ncalls >= 3:
                keep = []
                for p in pts:
                    if rng.random() < 0.5:
                        q = dict(p)
                        del q['step']
                        q['call'] = rng.randint(1, int(ncalls * 1.1) + 1)
                        cps.append(q)
                    else:
                        keep.append(p)
                pts = keep
            pts.sort(key=lambda p: p['step'])
            cps.sort(key=lambda p: p['call'])
            # a cancel ends the op: drop points after it; distinct steps only
            out, seen = [], set()
            for p in pts:
                if p['step'] in seen:
                    continue
                seen.add(p['step'])
                out.append(p)
                if p['kind'] == 'cancel':
                    break
            pts = out
            out, seen = [], set()
            for p in cps:
                if p['call'] in seen:
                    continue
                seen.add(p['call'])
                out.append(p)
                if p['kind'] == 'cancel':
                    break
            op['cpoints'] = out
        op['points'] = pts
        self.made += 1
        return op

    def _affine(self, name):
        """A callable to overlap with `name`: itself, or one that enters a (rarely used) function `name` enters too."""
        rng = self.rng
        fs = [f for f in self.funcs.get(name, ()) if f in self.fidx]
        if not fs or rng.random() < 0.35:
            return name
        w = [1.0 / (len(self.fidx[f]) ** 2) for f in fs]
        f = rng.choices(fs, w)[0]
        return rng.choice(self.fidx[f])

    # ---- sequential engines
    def _drain_task(self):
        """Past the op budget, scripted steps already queued (repeat / life / edit ...) may still run, up to 12 more."""
        if self.made >= self.cfg['nops'] + 12:
            return None
        busy = [t for t in sorted(self.queues) if self.queues[t]]
        return busy[0] if busy else None

    def next_top(self, sim):
        if self.made >= self.cfg['nops']:
            task = self._drain_task()
            if task is None:
                return None
            return self.make_op(sim, task, 0)
        task = self.rng.randrange(self.cfg['ntasks'])
        return self.make_op(sim, task, 0)

    def nested(self, sim, parent, point):
        busy = set(sim.inflight_tasks())
        busy.add(parent['task'])
        others = [t for t in range(self.cfg['ntasks']) if t not in busy]
        if not others:
            return None
        if self.rng.random() < self.cfg['p_same'] and not parent['name'].startswith('@'):
            # the most telling interleaving for per-function scratch state: the same callable overlapping itself
            self.want_name = self._affine(parent['name'])
        return self.make_op(sim, self.rng.choice(others), len(busy))

    # ---- thread engine
    def t_first(self, sim, runnable):
        return self.rng.choice(runnable)

    def t_op(self, sim, task):
        if self.made >= self.cfg['nops']:
            if self.made >= self.cfg['nops'] + 12 or not self.queues.get(task):
                return None
            return self.make_op(sim, task, 0)
        if self.rng.random() < self.cfg['p_same']:
            inflight = [c.op['name'] for j, c in enumerate(sim.tcur) if j != task and c is not None
                        and not c.op['name'].startswith('@')]
            if inflight:
                self.want_name = self._affine(self.rng.choice(inflight))
        return self.make_op(sim, task, 0)

    def t_pick(self, sim, runnable, point):
        return self.rng.choice(runnable)


class ReplaySource(object):
    """Reads decisions from a plan.  Anything the plan does not say resolves to
    a fixed default (first runnable task, no fault)."""
    mode = 'replay'

    def __init__(self, plan):
        self.plan = plan
        self.cfg = plan['cfg']
        self.seed = plan.get('seed', 0)
        self.pos = 0
        self.tpos = {}

    def next_top(self, sim):
        ops_ = self.plan['ops']
        if self.pos >= len(ops_):
            return None
        op = ops_[self.pos]
        self.pos += 1
        return op

    def nested(self, sim, parent, point):
        return point.get('op')

    def t_first(self, sim, runnable):
        f = self.plan.get('first')
        return f if f in runnable else runnable[0]

    def t_op(self, sim, task):
        lst = self.plan['tasks'][task] if task < len(self.plan['tasks']) else []
        i = self.tpos.get(task, 0)
        if i >= len(lst):
            return None
        self.tpos[task] = i + 1
        return lst[i]

    def t_pick(self, sim, runnable, point):
        to = point.get('to')
        return to if to in runnable else runnable[0]
