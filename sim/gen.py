"""Argument-expression generators used by the catalogue.

An *expression* is a small JSON value that the executor turns into a Python
object at call time (see core.build):
  {"f": hex} {"i": n} {"s": str} {"b": bool} {"n": null}
  {"h": id}                      live pool handle
  {"new": "Angle"|"Epoch", "v": hex, "slot": k}   fresh pooled object
  {"mk": "list"|"tuple", "items": [...], "slot": k}   fresh pooled container
  {"d": [y,m,d]} {"dt": [y,m,d,h,mi,s,us]}
  {"fn": name} {"attr": "Venus.VSOP87_L"}
"""

MONTHS3 = ['Jan', 'Feb', 'Mar', 'Apr', 'May', 'Jun', 'Jul', 'Aug', 'Sep', 'Oct', 'Nov', 'Dec']
MONTHSF = ['January', 'February', 'March', 'April', 'May', 'June', 'July', 'August',
           'September', 'October', 'November', 'December']


def year2jde(y):
    return 2451545.0 + (y - 2000.0) * 365.25


def _safe(pred, o):
    try:
        return bool(pred(o))
    except Exception:
        return False


class G(object):
    """Generation context for ONE operation."""

    def __init__(self, rng, pool, task, share=0.6):
        self.rng = rng
        self.pool = pool      # object with .candidates(kind) -> [(hid, obj)], .mutable(kind, task)
        self.task = task
        self.share = share
        self._slot = 0
        self.probes = []

    # ---- primitives
    def f(self, lo, hi):
        return {"f": float(self.rng.uniform(lo, hi)).hex()}

    def fv(self, x):
        return {"f": float(x).hex()}

    def i(self, lo, hi):
        # lo/hi: the range this integer was drawn from (used only by the scan workload, to stay inside it)
        return {"i": self.rng.randint(lo, hi), "lo": lo, "hi": hi}

    def iv(self, n):
        return {"i": int(n)}

    def b(self, p=0.5):
        return {"b": self.rng.random() < p}

    def s(self, v):
        return {"s": v}

    def num(self, lo, hi):
        """float, or an int when the range holds one."""
        if self.rng.random() < 0.25 and int(hi) - int(lo) >= 1:
            lo_i = int(lo) + (1 if lo > int(lo) or lo < 0 and int(lo) < lo else 0)
            n = self.rng.randint(min(lo_i, int(hi)), int(hi))
            if lo <= n <= hi:
                return {"i": n}
        return self.f(lo, hi)

    def slot(self):
        self._slot += 1
        return self._slot - 1

    # ---- pooled objects
    def _from_pool(self, kind, pred):
        if self.rng.random() >= self.share:
            return None
        c = [(h, o) for h, o in self.pool.candidates(kind) if pred(o)]
        if not c:
            return None
        h, o = c[self.rng.randrange(len(c))]
        self.probes.append('arg_from_pool')
        return {"h": h}

    def ang(self, lo, hi):
        """An Angle object whose value is in (lo, hi) degrees."""
        def pred(o):
            try:
                return lo < float(o) < hi
            except Exception:
                return False
        e = self._from_pool('Angle', pred)
        if e is not None:
            return e
        m = (hi - lo) * 1e-3
        return {"new": "Angle", "v": float(self.rng.uniform(lo + m, hi - m)).hex(), "slot": self.slot()}

    def angv(self, x):
        return {"new": "Angle", "v": float(x).hex(), "slot": self.slot()}

    def ang_or_float(self, lo, hi):
        if self.rng.random() < 0.5:
            return self.ang(lo, hi)
        return self.num(lo, hi)

    def ep(self, y0, y1):
        """An Epoch object with year in [y0, y1]."""
        j0, j1 = year2jde(y0 + 1.0), year2jde(y1 - 1.0)

        def pred(o):
            try:
                return j0 < o.jde() < j1
            except Exception:
                return False
        e = self._from_pool('Epoch', pred)
        if e is not None:
            return e
        return {"new": "Epoch", "v": float(self.rng.uniform(j0, j1)).hex(), "slot": self.slot()}

    def epv(self, jde):
        return {"new": "Epoch", "v": float(jde).hex(), "slot": self.slot()}

    def any_of(self, kind):
        c = self.pool.candidates(kind)
        if not c:
            return None
        h, o = c[self.rng.randrange(len(c))]
        return {"h": h}

    def mutable(self, kind):
        c = self.pool.mutable(kind, self.task)
        if not c:
            return None
        rel = [x for x in c if self.pool.is_copyrel(x[1])]
        if rel and self.rng.random() < 0.5:
            c = rel
        h, o = c[self.rng.randrange(len(c))]
        return {"h": h}

    def own_handle(self, kind, pred=None):
        """A handle this task owns (may rebind), whatever object it names."""
        c = [(h, o) for h, o in self.pool.own(kind, self.task) if pred is None or _safe(pred, o)]
        if not c:
            return None
        h, o = c[self.rng.randrange(len(c))]
        return {"h": h}

    def mk(self, items, kind=None):
        if kind is None:
            kind = 'list' if self.rng.random() < 0.5 else 'tuple'
        return {"mk": kind, "items": list(items), "slot": self.slot()}

    # ---- calendar dates
    # years where calendar / time-scale tables have edges
    EDGE_YEARS = [1582, 1583, 1971, 1972, 1973, 1999, 2000, 2016, 2016, 2017, 2017, 2018, 1, 0, -1]

    def ymd(self, y0, y1, frac=True):
        y = self.rng.randint(int(y0), int(y1))
        if self.rng.random() < 0.12:
            c = [x for x in self.EDGE_YEARS if y0 <= x <= y1]
            if c:
                y = self.rng.choice(c)
        m = self.rng.randint(1, 12)
        d = self.rng.randint(1, 28)
        if y == 1582 and m == 10:
            d = self.rng.choice([1, 2, 3, 4, 15, 16, 20, 28])
        return y, m, d

    def month_expr(self, m):
        r = self.rng.random()
        if r < 0.7:
            return {"i": m}
        if r < 0.85:
            return {"s": MONTHS3[m - 1]}
        return {"s": MONTHSF[m - 1]}

    def date_kwargs(self, y, allow_local=True):
        """utc / leap_seconds / local keyword forms of the Epoch family."""
        r = self.rng.random()
        if r < 0.6:
            return {}
        if r < 0.75:
            return {"utc": {"b": True}}
        if r < 0.83:
            return {"leap_seconds": self.num(10, 40)}
        if r < 0.88:
            # two keywords, spelled in either order (equal arguments either way)
            kw = [("utc", {"b": self.rng.random() < 0.8}), ("leap_seconds", self.num(10, 40))]
            if self.rng.random() < 0.5:
                kw.reverse()
            return dict(kw)
        if allow_local:
            self.probes.append('local_kw')
            if self.rng.random() < 0.3:
                kw = [("local", {"b": True}), ("leap_seconds", self.num(10, 40))]
                if self.rng.random() < 0.5:
                    kw.reverse()
                return dict(kw)
            return {"local": {"b": True}}
        return {}

    def dateargs(self, y0, y1, allow_local=True, allow_epoch=True):
        """(args, kwargs) accepted by Epoch.check_input_date-style functions."""
        r = self.rng.random()
        if allow_epoch and r < 0.5:
            # the time-scale keywords are documented for every input form (with an Epoch they are ignored today)
            kw = self.date_kwargs(2000, allow_local) if self.rng.random() < 0.3 else {}
            return [self.ep(y0, y1)], kw
        y, m, d = self.ymd(y0 + 1, y1 - 1)
        kw = self.date_kwargs(y, allow_local)
        r = self.rng.random()
        dd = {"i": d} if self.rng.random() < 0.4 else {"f": float(d + self.rng.random() * 0.99).hex()}
        if r < 0.5:
            return [{"i": y}, self.month_expr(m), dd], kw
        if r < 0.75:
            return [self.mk([{"i": y}, self.month_expr(m), dd])], kw
        if 1 <= y <= 9999:
            if r < 0.88:
                return [{"d": [y, m, d]}], kw
            return [{"dt": [y, m, d, self.rng.randint(0, 23), self.rng.randint(0, 59),
                            self.rng.randint(0, 59), self.rng.randint(0, 999999)]}], kw
        return [{"i": y}, {"i": m}, dd], kw

    def epoch_ctor_args(self, y0=-4000, y1=5000, allow_local=True):
        """(args, kwargs) for Epoch(...) / Epoch.set(...)."""
        r = self.rng.random()
        if r < 0.2:
            return [self.f(year2jde(y0), year2jde(y1))], {}
        if r < 0.3:
            e = self.any_of('Epoch')
            if e is not None:
                self.probes.append('copy_ctor')
                return [e], {}
        y, m, d = self.ymd(max(y0, -4700), y1)
        kw = self.date_kwargs(y, allow_local)
        r = self.rng.random()
        if r < 0.35:
            dd = {"f": float(d + self.rng.random() * 0.99).hex()}
            return [{"i": y}, self.month_expr(m), dd], kw
        hms = [{"i": d}, self.num(0, 23), self.num(0, 59), self.f(0, 59.9)]
        hms = hms[:self.rng.randint(1, 4)]
        if r < 0.6:
            return [{"i": y}, self.month_expr(m)] + hms, kw
        if r < 0.8:
            return [self.mk([{"i": y}, self.month_expr(m)] + hms)], kw
        if 1 <= y <= 9999:
            if r < 0.9:
                return [{"d": [y, m, d]}], kw
            return [{"dt": [y, m, d, self.rng.randint(0, 23), self.rng.randint(0, 59),
                            self.rng.randint(0, 59), self.rng.randint(0, 999999)]}], kw
        return [{"i": y}, {"i": m}, {"i": d}], kw

    def angle_ctor_args(self):
        """(args, kwargs) for Angle(...) / Angle.set(...): every documented form."""
        r = self.rng.random()
        rng = self.rng
        mag = rng.choice([1.0, 10.0, 400.0, 1e4, 1e6])

        def piece(lim, neg_ok=True):
            x = rng.uniform(0, lim)
            if rng.random() < 0.4:
                x = float(int(x))
            if neg_ok and rng.random() < 0.25:
                x = -x
            if rng.random() < 0.3 and x == int(x):
                return {"i": int(x)}
            return {"f": float(x).hex()}
        if r < 0.05:
            return [], {}
        if r < 0.25:
            return [self.num(-mag, mag)], {}
        if r < 0.33:
            e = self.any_of('Angle')
            if e is not None:
                self.probes.append('copy_ctor')
                return [e], {}
        if r < 0.42:
            return [self.f(-7.0, 7.0)], {"radians": {"b": True}}
        if r < 0.50:
            # single-element sequence, possibly with radians=True
            kw = {"radians": {"b": True}} if rng.random() < 0.5 else {}
            return [self.mk([self.f(-7.0, 7.0)])], kw
        n = rng.choice([2, 3, 3, 4])
        pcs = [piece(400.0), piece(70.0), piece(70.0)][:min(n, 3)]
        if n == 4:
            pcs.append({"f": float(rng.choice([1.0, -1.0])).hex()})
        kw = {}
        if rng.random() < 0.25:
            kw = {"ra": {"b": True}}
            pcs[0] = piece(24.0)
        if rng.random() < 0.5:
            return pcs, kw
        return [self.mk(pcs)], kw
