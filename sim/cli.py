"""Command line of the C20 check: batches, replay, evidence, known findings."""
import collections
import json
import multiprocessing as mp
import os
import subprocess
import sys
import threading
import time as _time
from concurrent.futures import ProcessPoolExecutor

from . import runner
from .source import GenSource, ReplaySource, mix

HERE = os.path.dirname(os.path.dirname(os.path.abspath(__file__)))
PROPERTY = 'C20'
_OUT = os.environ.get('VERIF_OUT_DIR')  # self-tests redirect their output away from /verif
EVIDENCE = os.path.join(_OUT or os.path.join(HERE, 'evidence'), PROPERTY + '.json')
REPLAYS = os.path.join(_OUT, 'replays') if _OUT else os.path.join(HERE, 'replays')
KNOWN = os.environ.get('VERIF_KNOWN_FILE') or os.path.join(HERE, 'KNOWN_FINDINGS.txt')  # override: self-tests only
_perf = runner._perf

TIERS = {
    # engine -> number of runs
    'quick': {'H': 1500, 'N': 2000, 'T': 900},
    'thorough': {'H': 50000, 'N': 70000, 'T': 30000},
}
ENGINE_OFFSET = {'H': 0, 'N': 10 ** 9, 'T': 2 * 10 ** 9}
# engine S (stratified pre-emption sweep): boundaries tried per callable (0 = every boundary)
SWEEP_CAP = {'quick': 4, 'thorough': 2500, 'full': 0}


_PENDING = []        # (key string, raw replay path) of violations found but not yet minimised / reported
_DEADLINE = [None]   # perf_counter time at which minimisation must stop so that the report fits the wall limit


def _watchdog(seconds, what):
    _DEADLINE[0] = _perf() + 0.6 * seconds

    def bark():
        if _PENDING:
            # violations were found; minimisation / fresh-process verification did not fit: report them as found
            for ks, path in _PENDING:
                sys.stdout.write('VIOLATION property=%s replay=%s\n  (%s; not minimised: %s exceeded %ds wall)\n'
                                 % (PROPERTY, path, ks, what, seconds))
            sys.stdout.flush()
            os._exit(1)
        sys.stdout.write('HARNESS-ERROR: %s exceeded %ds wall; no verdict\n' % (what, seconds))
        sys.stdout.flush()
        os._exit(2)
    t = threading.Timer(seconds, bark)
    t.daemon = True
    t.start()
    return t


def _init_worker():
    runner.boot()


def _one(job):
    seed, engine, idx, keep_sample = job[:4]
    deep = bool(job[4]) if len(job) > 4 else False
    rs = mix(seed, ENGINE_OFFSET[engine] + idx)
    src = GenSource(rs, engine, runner.BOOT['steps'], runner.BOOT['funcs'], runner.BOOT['calls'], deep)
    try:
        r = runner.run_plan(src)
    except runner.HarnessError as e:
        return {'idx': idx, 'engine': engine, 'harness_error': str(e)[-1500:]}
    out = {'idx': idx, 'engine': engine, 'deep': deep, 'run_seed': rs, 'digest': r['digest'], 'nontrivial': r['nontrivial'],
           'counters': r['counters'], 'violations': r['violations'], 'steps': r['steps'],
           'sim_seconds': r['sim_seconds'], 'wall': r['wall'], 'sched_keys': r['sched_keys'],
           'point_lines': r['point_lines'],
           'rejects': r['rejects'], 'nrecords': len(r['records']), 'calls_by_name': r['calls_by_name'],
           'soft': r['soft']}
    if r['violations'] or keep_sample or job[3] == 'plan':
        out['plan'] = r['plan']
    return out


def _sweep_job(job):
    from . import sweep
    return sweep.run_pair(job)


def run_sweep(seed, cap, workers=16, progress=True, chunk=500):
    from .source import NAMES
    calls = runner.BOOT.get('calls', {})
    steps = runner.BOOT.get('steps', {})
    jobs = []
    for i in range(2 * len(NAMES)):      # second half: the warm variants (sweep.build_pair)
        nb = int(max(calls.get(NAMES[i % len(NAMES)], 0), 2) * 1.05) + 2
        if (cap == 0 or cap > chunk) and nb > chunk:
            # the boundaries of a long callable are split over several jobs (same seeded pair in each)
            for lo in range(1, nb + 1, chunk):
                jobs.append((seed, i, cap, lo, min(nb, lo + chunk - 1)))
        else:
            jobs.append((seed, i, cap))
    # heaviest first so that the tail of the batch is short
    jobs.sort(key=lambda j: -steps.get(NAMES[j[1] % len(NAMES)], 1))
    res = []
    t0 = _perf()
    with ProcessPoolExecutor(workers, mp_context=mp.get_context('fork'), initializer=_init_worker) as ex:
        for k, r in enumerate(ex.map(_sweep_job, jobs, chunksize=1)):
            res.append(r)
            if progress and (cap == 0 or cap > 100) and (k + 1) % 100 == 0:
                sys.stdout.write('  .. sweep %d/%d jobs, %.0fs\n' % (k + 1, len(jobs), _perf() - t0))
                sys.stdout.flush()
    return res


def run_batch(seed, counts, workers=16, progress=True, deep_every=0):
    jobs = []
    for eng in ('H', 'N', 'T'):
        n = counts.get(eng, 0)
        jobs += [(seed, eng, i, i < 1, bool(deep_every and i % deep_every == deep_every - 1)) for i in range(n)]
    # interleave engines so that a partial batch is still mixed
    jobs.sort(key=lambda j: (j[2], j[1]))
    res = []
    t0 = _perf()
    with ProcessPoolExecutor(workers, mp_context=mp.get_context('fork'), initializer=_init_worker) as ex:
        for k, r in enumerate(ex.map(_one, jobs, chunksize=4)):
            res.append(r)
            if progress and (k + 1) % 2000 == 0:
                sys.stdout.write('  .. %d/%d runs, %.0fs\n' % (k + 1, len(jobs), _perf() - t0))
                sys.stdout.flush()
    return res


# ---------------------------------------------------------------- known findings
def load_known():
    known = {}
    if os.path.exists(KNOWN):
        for line in open(KNOWN):
            line = line.strip()
            if line.startswith('finding:'):
                parts = line.split(None, 3)
                # finding: property=C20 key=<oracle>|<callable> <text>
                kv = dict(p.split('=', 1) for p in parts[1:3] if '=' in p)
                if kv.get('property') == PROPERTY and 'key' in kv:
                    known[kv['key']] = parts[3] if len(parts) > 3 else ''
    return known


def keystr(key):
    return '%s|%s' % key


# ---------------------------------------------------------------- reporting
def report_violations(results, seed, tier, do_minimise=True, max_keys=8, max_report=12):
    """Group, minimise, write replay files, verify them in a fresh process.
    Returns (n_new, n_known, harness_trouble)."""
    from . import minimise as mz
    groups = collections.OrderedDict()
    for r in results:
        for v in r.get('violations', ()):
            k = mz.vkey(v)
            if k not in groups:
                if '_plan' in v:       # engine S: the plan travels with the violation
                    r = dict(r, plan=v['_plan'], run_seed=v['_plan'].get('seed', 0))
                groups[k] = (r, v, 0)
            g = groups[k]
            groups[k] = (g[0], g[1], g[2] + 1)
    # O5.never: a callable that rejected every generated in-domain input of the whole batch
    calls = collections.Counter()
    rejs = collections.Counter()
    first = {}
    for r in results:
        if 'harness_error' in r or r.get('engine') == 'S':
            continue
        calls.update(r['calls_by_name'])
        for sv in r['soft']:
            rejs[sv['name']] += 1
            first.setdefault(sv['name'], (r, sv))
    for name in sorted(rejs):
        if calls[name] >= 20 and rejs[name] == calls[name] and not name.endswith('#bad'):
            r, sv = first[name]
            if 'plan' not in r:
                r = _one((seed, r['engine'], r['idx'], 'plan', r.get('deep')))
            sv = dict(sv)
            sv['detail'] = dict(sv['detail'], calls_in_batch=calls[name], rejected=rejs[name])
            groups[('O5.never', name)] = (r, sv, rejs[name])
    known = load_known()
    n_new = n_known = 0
    trouble = False
    os.makedirs(REPLAYS, exist_ok=True)
    todo = []
    for k, (r, v, cnt) in groups.items():
        ks = keystr(k)
        if ks in known:
            print('KNOWN-FINDING: property=%s %s (%s; seen in %d runs of this batch)' % (PROPERTY, ks, known[ks], cnt))
            n_known += 1
            continue
        todo.append((k, r, v, cnt))
    # the plans as found, first: should the wall limit cut the rest short, these are what is reported
    for k, r, v, cnt in todo[:max_report]:
        raw = os.path.join(REPLAYS, '%s-%s-%s-%d-%s-%s-raw.json' % (PROPERTY, r['engine'], tier, r['run_seed'] % 10 ** 8,
                                                                   k[0].replace('.', ''), _slug(k[1])))
        with open(raw, 'w') as f:
            json.dump({'property': PROPERTY, 'key': list(k), 'violation': v, 'found': {
                'verif_seed': seed, 'engine': r['engine'], 'run_index': r['idx'], 'run_seed': r['run_seed'],
                'runs_in_batch_with_this_key': cnt, 'minimise_trials': 0}, 'plan': r['plan']}, f, indent=1, default=str)
        _PENDING.append((keystr(k), raw))
    # minimise the first max_keys classes in parallel
    mins = {}
    if do_minimise and todo:
        jobs = [(t[1]['plan'], t[0], _DEADLINE[0]) for t in todo[:max_keys]]
        with ProcessPoolExecutor(min(8, len(jobs)), mp_context=mp.get_context('fork'), initializer=_init_worker) as ex:
            for (k, r, v, cnt), res in zip(todo[:max_keys], ex.map(_min_job, jobs)):
                mins[k] = res
    if len(todo) > max_report:
        print('NOTE: %d violation classes found; the first %d are replayed and reported individually, the rest: %s'
              % (len(todo), max_report, ', '.join(keystr(t[0]) for t in todo[max_report:])[:1500]))
    for k, r, v, cnt in todo[:max_report]:
        ks = keystr(k)
        plan, vmin, trials = r['plan'], v, 0
        if k in mins and mins[k][1] is not None:
            plan, vmin, trials = mins[k]
        path = os.path.join(REPLAYS, '%s-%s-%s-%d-%s-%s.json' % (PROPERTY, r['engine'], tier, r['run_seed'] % 10 ** 8,
                                                               k[0].replace('.', ''), _slug(k[1])))
        doc = {'property': PROPERTY, 'key': list(k), 'violation': vmin, 'found': {
            'verif_seed': seed, 'engine': r['engine'], 'run_index': r['idx'], 'run_seed': r['run_seed'],
            'runs_in_batch_with_this_key': cnt, 'minimise_trials': trials}, 'plan': plan}
        with open(path, 'w') as f:
            json.dump(doc, f, indent=1, default=str)
        rc = subprocess.run([sys.executable, os.path.join(HERE, 'check'), 'replay', path], capture_output=True,
                            text=True, timeout=600)
        _PENDING[:] = [x for x in _PENDING if x[0] != ks]
        if rc.returncode == 1 and 'VIOLATION' in rc.stdout:
            print('VIOLATION property=%s replay=%s' % (PROPERTY, path))
            print('  %s in %s: %s' % (k[0], k[1], json.dumps(vmin['detail'], default=str)[:600]))
            n_new += 1
        else:
            print('HARNESS-ERROR: candidate %s did not reproduce in a fresh process (rc=%d)' % (ks, rc.returncode))
            print(rc.stdout[-800:])
            trouble = True
    return n_new, n_known, trouble


def _slug(s):
    return ''.join(c if c.isalnum() else '_' for c in str(s))[:40]


def _min_job(job):
    from . import minimise as mz
    plan, key, deadline = job
    return mz.minimise(plan, key, 80, deadline)


def _entries():
    from .catalogue import ENTRIES
    return ENTRIES


def write_evidence(results, seed, tier, wall, nviol, extra=None):
    tot = collections.Counter()
    digests = set()
    nt = set()
    sched = set()
    plines = set()
    steps = 0
    simsec = 0.0
    per_engine = collections.Counter()
    rej = collections.Counter()
    calls = collections.Counter()
    samples = []
    herr = 0
    byname = collections.Counter()
    cpu = 0.0
    swept_names = set()
    sweep = {'callables_swept': 0, 'runs': 0, 'callables_needing_a_pool_receiver_left_to_random_engines': 0,
             'boundaries_of_swept_callables': 0, 'harness_errors': 0}
    for r in results:
        if r.get('engine') == 'S':
            if r['pair'] is None:
                sweep['callables_needing_a_pool_receiver_left_to_random_engines'] += 1
                continue
            if r['pair'][0] not in swept_names:
                swept_names.add(r['pair'][0])
                sweep['callables_swept'] += 1
                sweep['boundaries_of_swept_callables'] += r['pair'][2]
            sweep['runs'] += r['runs']
            sweep['harness_errors'] += r['harness_errors']
            tot.update(r['counters'])
            digests.update(r['digests'])
            nt.update(r['nt_digests'])
            for k in r['sched_keys']:
                sched.add(tuple(k))
            for k in r['point_lines']:
                plines.add(tuple(k))
            steps += r['steps']
            cpu += r['wall']
            per_engine['S'] += r['runs']
            byname.update(r['calls_by_name'])
            continue
        if 'harness_error' in r:
            herr += 1
            continue
        tot.update(r['counters'])
        digests.add(r['digest'])
        if r['nontrivial']:
            nt.add(r['digest'])
        for k in r['sched_keys']:
            sched.add(tuple(k))
        for k in r['point_lines']:
            plines.add(tuple(k))
        steps += r['steps']
        simsec += r['sim_seconds']
        per_engine[r['engine']] += 1
        cpu += r['wall']
        for x in r['rejects']:
            rej[x[0]] += 1
        byname.update(r['calls_by_name'])
        if 'plan' in r and len(samples) < 3 and not r['violations']:
            p = r['plan']
            ops_ = p.get('ops') or [o for t in p.get('tasks', []) for o in t]
            samples.append({'engine': r['engine'], 'run_seed': r['run_seed'], 'zone_min': p['cfg']['zone_min'],
                            'start': p['cfg']['start'], 'ntasks': p['cfg']['ntasks'],
                            'ops': [{'id': o['id'], 'task': o['task'], 'name': o['name'],
                                     'points': [(q.get('step', 'call#%s' % q.get('call')), q['kind'],
                                                 (q.get('op') or {}).get('name', q.get('to', q.get('exc'))))
                                                for q in o.get('points', []) + (o.get('cpoints') or [])][:6]}
                                    for o in ops_][:40]})
    n = sum(per_engine.values())
    entries_hit = sorted(k[4:] for k in tot if k.startswith('ops.'))
    cov = {
        'evaluations': n,
        'distinct_nontrivial': len(nt),
        'rule': ('one evaluation = one seeded simulated run (2-40 API calls by 1-4 caller tasks over a shared object '
                 'pool, executed under the line-level scheduler with injected faults, then every call re-executed solo '
                 'on pickled clones in a pristine process). distinct = distinct blake2b digest of the full event log '
                 '(ops, results, step counts, switch/nest/cancel points, clock reads); non-trivial = at least one '
                 'pre-emption, thread switch, cancellation or non-tick clock fault actually FIRED inside an in-flight '
                 'library call in that run'),
        'samples': samples,
        'distinct_event_logs': len(digests),
        'runs_per_engine': dict(per_engine),
        'runs_per_hour': int(n / wall * 3600) if wall > 0 else 0,
        'api_calls': tot.get('ops', 0),
        'api_calls_nested': tot.get('ops_nested', 0),
        'solo_reference_calls': tot.get('solo_calls', 0),
        'line_steps': steps,
        'simulated_seconds': simsec,
        'simulated_seconds_note': 'sum over all runs of |movement| of the simulated wall clock across its reads (ticks, steps, jumps, straddles; backwards moves counted positive)',
        'faults_fired': {
            'preempt_nested_call': tot.get('fired.nest', 0),
            'thread_switches': tot.get('switches', 0),
            'yield_points': tot.get('fired.yield', 0),
            'cancel_injected': tot.get('fired.cancel', 0),
            'midcall_pool_checks': tot.get('fired.check', 0),
            'clock_reads': tot.get('clock_reads', 0),
            'clock_tick': tot.get('clock.tick', 0), 'clock_straddle': tot.get('clock.straddle', 0),
            'clock_step': tot.get('clock.step', 0), 'clock_jump': tot.get('clock.jump', 0),
            'clock_stall': tot.get('clock.stall', 0),
            'clock_boundary_crossed_between_reads': {k: tot.get('clock_cross.' + k, 0) for k in ('minute', 'hour', 'day')},
        },
        'distinct_schedule_points': len(sched),
        'distinct_source_lines_used_as_fault_point': len(plines),
        'executable_lines_in_pymeeus_functions': runner.BOOT.get('fn_lines', 0),
        'schedule_point_measure': 'distinct (pre-empted callable, function, line, intruding callable) tuples',
        'preempted_in_module': {k[11:]: v for k, v in sorted(tot.items()) if k.startswith('preempt_in.')},
        'reach_probes': {k[6:]: v for k, v in sorted(tot.items()) if k.startswith('probe.')},
        'pool_wide_frame_checks': tot.get('pool_checks', 0),
        'module_state_digests': tot.get('module_digests', 0),
        'mutators_applied': tot.get('mutator_applied', 0),
        'catalogue_groups_exercised': entries_hit,
        'catalogue_entries_total': len(_entries()),
        'catalogue_entries_exercised': len([n for n in _entries() if byname.get(n)]),
        'catalogue_entries_never_completed': sorted(n for n in _entries() if not byname.get(n))[:40],
        'least_exercised_entries': sorted(((byname.get(n, 0), n) for n in _entries()))[:8],
        'catalogue_entries_unavailable': tot.get('entry_unavailable', 0),
        'ops_skipped': tot.get('op_skipped', 0),
        'domain_rejects_by_callable': dict(rej.most_common(25)),
        'solo_nonfinite_results': tot.get('solo_nonfinite', 0),
        'harness_errors': herr,
        'components': {
            'real': ['every module of /repo/pymeeus (imported from the working tree, unmodified)', 'libc time-zone conversion'],
            'stub': ['wall clock (datetime.now/utcnow/today, date.today, time.time/time_ns, no-arg localtime/gmtime)',
                     'caller application (seeded tasks)', 'thread scheduler (baton passing / nested pre-emption)'],
        },
        'cpu_seconds_in_runs': cpu,
        'stratified_preemption_sweep': sweep,
    }
    if extra:
        cov.update(extra)
    ev = {
        'property_id': PROPERTY, 'tier': tier, 'seed': seed, 'level': 'exploration', 'coverage': cov,
        'assumptions': [
            'exploration, not proof: only the seeded histories, interleavings and clock trajectories listed here were run',
            'pre-emption granularity is one source line of pymeeus',
            'arguments stay inside conservative documented domains; input-domain clauses of C20 are only sampled',
            'fixed-offset time zones only (a DST zone legitimately changes its offset with the instant)',
        ],
        'wall_s': wall, 'violations': nviol,
    }
    os.makedirs(os.path.dirname(EVIDENCE), exist_ok=True)
    tmp = EVIDENCE + '.tmp'
    with open(tmp, 'w') as f:
        json.dump(ev, f, indent=1, default=str)
    os.replace(tmp, EVIDENCE)
    return ev


# ---------------------------------------------------------------- commands
def cmd_batch(tier, argv):
    seed = int(os.environ.get('VERIF_SEED', '1'))
    counts = dict(TIERS[tier])
    for a in argv:
        if a.startswith('--runs='):
            f = float(a.split('=')[1])
            counts = {k: max(1, int(v * f)) for k, v in counts.items()}
        if a.startswith('--engines='):
            keep = a.split('=')[1].split(',')
            counts = {k: v for k, v in counts.items() if k in keep}
    wd = _watchdog(float(os.environ.get('VERIF_WALL_LIMIT') or (900 if tier == 'quick' else 6 * 3600)), tier)
    print('%s: VERIF_SEED=%d tier=%s runs=%s repo=%s' % (PROPERTY, seed, tier, counts, runner.REPO))
    sys.stdout.flush()
    t0 = _perf()
    runner.boot()
    results = run_batch(seed, counts, deep_every=(4 if tier == 'thorough' else 0))
    if '--no-sweep' not in argv and counts.get('N'):
        results += run_sweep(seed, SWEEP_CAP[tier] if not any(a.startswith('--runs=') for a in argv) else 3)
    herr = [r for r in results if 'harness_error' in r]
    n_new, n_known, trouble = report_violations(results, seed, tier)
    extra = {}
    # replay-determinism spot check on every batch: the first runs of each engine are executed
    # again (other worker processes, other position in the batch); their event logs must be identical
    first = dict(((r['engine'], r['idx']), r.get('digest')) for r in results if r['idx'] < 6)
    again = _digests(seed, list(range(6)), [e for e in 'HNT' if counts.get(e)], 8, 4 if tier == 'thorough' else 0)
    bad = [k for k, d in again.items() if first.get(k) is not None and first[k] != d]
    extra['determinism_spot_check'] = {'runs_reexecuted': len(again), 'mismatches': len(bad)}
    if bad:
        print('HARNESS-ERROR: runs %s are not reproducible (event-log digests differ)' % bad[:4])
        trouble = True
    if tier == 'thorough' and '--no-selftest' not in argv:
        ok, info = determinism_sample(seed, 40)
        extra['determinism_sample'] = info
        if not ok:
            trouble = True
    wall = _perf() - t0
    ev = write_evidence(results, seed, tier, wall, n_new, extra)
    c = ev['coverage']
    print('%s: %d runs (%s), %d API calls, %d line steps, %d distinct non-trivial histories, %.0fs wall'
          % (PROPERTY, c['evaluations'], c['runs_per_engine'], c['api_calls'], c['line_steps'], c['distinct_nontrivial'], wall))
    wd.cancel()
    sw = c.get('stratified_preemption_sweep') or {}
    if sw.get('harness_errors', 0) > max(3, sw.get('runs', 0) // 200):
        print('HARNESS-ERROR: %d sweep runs failed in the harness' % sw['harness_errors'])
        trouble = True
    if herr:
        print('HARNESS-ERROR: %d runs failed in the harness, e.g. %s' % (len(herr), herr[0]['harness_error'][-400:]))
        if len(herr) > max(3, len(results) // 200):
            trouble = True
    if n_new:
        return 1
    if trouble:
        return 2
    print('%s: held on everything explored%s' % (PROPERTY, ' (%d known findings)' % n_known if n_known else ''))
    return 0


def cmd_sweep_full(argv):
    """Engine S alone, every boundary of every callable (about 270 000 runs, 2-3 h); no evidence file is written."""
    seed = int(os.environ.get('VERIF_SEED', '1'))
    wd = _watchdog(8 * 3600, 'sweep-full')
    runner.boot()
    t0 = _perf()
    results = run_sweep(seed, 0)
    n_new, n_known, trouble = report_violations(results, seed, 'sweep')
    print('%s: full boundary sweep, %d runs over %d callables, %.0fs wall' % (
        PROPERTY, sum(r['runs'] for r in results), len(set(r['pair'][0] for r in results if r['pair'])), _perf() - t0))
    wd.cancel()
    return 1 if n_new else (2 if trouble else 0)


def cmd_replay(argv):
    path = argv[0]
    doc = json.load(open(path))
    plan = doc['plan']
    key = tuple(doc['key']) if doc.get('key') else None
    runner.boot()
    r = runner.run_plan(ReplaySource(plan), 300.0)
    hit = False
    vs = list(r['violations'])
    if key is not None and key[0] == 'O5.never':
        vs += [v for v in r['soft'] if (v['oracle'], v['name']) == key]
    for v in vs:
        k = (v['oracle'], v['name'])
        print('  violation %s in %s (op %s): %s' % (v['oracle'], v['name'], v['op'], json.dumps(v['detail'], default=str)[:500]))
        if key is None or k == key:
            hit = True
    print('  event-log digest %s, %d ops' % (r['digest'], len(r['records'])))
    if hit:
        print('VIOLATION property=%s replay=%s' % (PROPERTY, path))
        return 1
    print('NOT-REPRODUCED: %s' % path)
    return 0


def _digests(seed, idxs, engines, workers, deep_every=0):
    jobs = [(seed, e, i, False, bool(deep_every and i % deep_every == deep_every - 1)) for e in engines for i in idxs]
    out = {}
    with ProcessPoolExecutor(workers, mp_context=mp.get_context('fork'), initializer=_init_worker) as ex:
        for j, r in zip(jobs, ex.map(_one, jobs, chunksize=2)):
            out[(j[1], j[2])] = r.get('digest', 'HARNESS:' + r.get('harness_error', '')[-100:])
    return out


def determinism_sample(seed, n):
    """Same seeds twice at worker counts 16 and 3, and once in a fresh interpreter
    under another PYTHONHASHSEED; event-log digests must agree."""
    idxs = list(range(5000, 5000 + n))
    a = _digests(seed, idxs, 'HNT', 16, 4)
    b = _digests(seed, idxs, 'HNT', 3, 4)
    env = dict(os.environ, PYTHONHASHSEED='12345', VERIF_NO_REEXEC='1', VERIF_SEED=str(seed))
    p = subprocess.run([sys.executable, os.path.join(HERE, 'check'), '_digests', str(n)], capture_output=True,
                       text=True, env=env, timeout=3600)
    c = {}
    for line in p.stdout.splitlines():
        if line.startswith('D '):
            _, e, i, d = line.split()
            c[(e, int(i))] = d
    bad = [k for k in a if a[k] != b.get(k) or a[k] != c.get(k)]
    info = {'seeds': n, 'engines': 'H,N,T', 'executions_compared': 3 * len(a), 'mismatches': len(bad),
            'variants': ['16 workers', '3 workers', 'fresh interpreter PYTHONHASHSEED=12345'],
            'every_fourth_run_uses_the_deep_configuration': True}
    if bad:
        print('HARNESS-ERROR: determinism self-test failed for %s' % bad[:5])
    return not bad, info


def cmd_selftest_determinism(argv):
    n = int(argv[0]) if argv else 170
    seed = int(os.environ.get('VERIF_SEED', '1'))
    runner.boot()
    ok, info = determinism_sample(seed, n)
    print(json.dumps(info))
    return 0 if ok else 2


def cmd_digests(argv):
    n = int(argv[0])
    seed = int(os.environ.get('VERIF_SEED', '1'))
    runner.boot()
    d = _digests(seed, list(range(5000, 5000 + n)), 'HNT', 8, 4)
    for (e, i), v in sorted(d.items()):
        print('D %s %d %s' % (e, i, v))
    return 0


def main(argv):
    if not argv:
        print(__doc__)
        return 2
    cmd, rest = argv[0], argv[1:]
    try:
        if cmd in ('quick', 'thorough'):
            return cmd_batch(cmd, rest)
        if cmd == 'replay':
            return cmd_replay(rest)
        if cmd == 'sweep-full':
            return cmd_sweep_full(rest)
        if cmd == 'selftest-determinism':
            return cmd_selftest_determinism(rest)
        if cmd == '_digests':
            return cmd_digests(rest)
        if cmd == 'selftest-sensitivity':
            from . import sensitivity
            return sensitivity.main(rest)
        if cmd == 'calibrate':
            from . import calibrate
            return calibrate.main(rest)
    except runner.HarnessError as e:
        print('HARNESS-ERROR: %s' % e)
        return 2
    print('unknown command', cmd)
    return 2
