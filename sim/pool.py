"""Shared object pool of the simulated callers, its reference model (last
legitimate-write snapshots), and expression building."""
import pickle

from . import ops
from .snap import snap, is_busy

KINDS = ('Angle', 'Epoch', 'Interpolation', 'CurveFitting', 'Earth', 'Ellipsoid', 'Minor', 'list', 'tuple')
# handle ids: op*hstride + [0, rslots) = results of the op; op*hstride + [rslots, hstride) = objects built
# inline for the op.  Both numbers are recorded in every plan (old replay files: 64 / 32).
HSTRIDE = 512
RSLOTS = 64
CONST_HANDLES = {1: ('Epoch', 'JDE2000'), 2: ('Earth', 'IAU76'), 3: ('Earth', 'WGS84')}


def kind_of(o):
    n = type(o).__name__
    if n in KINDS and (n in ('list', 'tuple') or type(o) is ops.CLASSES.get(n)):
        return n
    return None


class ObjInfo(object):
    __slots__ = ('obj', 'kind', 'snap', 'frozen', 'rlocks', 'xlock', 'const', 'minor', 'born', 'recipe', 'copyrel')

    def __init__(self, obj, kind, born):
        self.obj, self.kind = obj, kind
        self.snap = snap(obj)
        self.frozen = False
        self.rlocks = 0
        self.xlock = False
        self.const = False
        self.minor = None
        self.born = born
        self.recipe = None      # [(entry name, cloned call)]: how to rebuild an object that has no repr
        self.copyrel = False    # the object is a copy, or the source of a copy


class Pool(object):
    def __init__(self):
        self.handles = {}   # hid -> obj
        self.owner = {}     # hid -> task
        self.info = {}      # id(obj) -> ObjInfo
        self._rot = 0
        for hid, (mod, attr) in CONST_HANDLES.items():
            o = getattr(ops.MODS[mod], attr, None)
            if o is None or kind_of(o) is None:
                continue
            self.register(hid, o, -1, born=0)
            self.info[id(o)].const = True
            self.info[id(o)].frozen = True

    def register(self, hid, obj, task, born):
        """Bind handle hid to obj.  Returns True when obj was already known (alias)."""
        k = kind_of(obj)
        if k is None:
            return None
        self.handles[hid] = obj
        self.owner[hid] = task
        if id(obj) in self.info:
            return True
        self.info[id(obj)] = ObjInfo(obj, k, born)
        return False

    def infoof(self, obj):
        # (self.info holds a strong reference to every object it describes, so an id() found here
        # always belongs to that very object: nothing else in the simulator may key state on id())
        return self.info.get(id(obj))

    def is_copyrel(self, obj):
        inf = self.info.get(id(obj))
        return bool(inf is not None and inf.copyrel)

    def _iter(self, kind):
        seen = set()
        for hid in sorted(self.handles):
            o = self.handles[hid]
            inf = self.info.get(id(o))
            if inf is None or inf.kind != kind or id(o) in seen:
                continue
            seen.add(id(o))
            yield hid, o, inf

    def candidates(self, kind):
        """Readable objects of a kind (not being written by an in-flight mutator)."""
        return [(h, o) for h, o, inf in self._iter(kind) if not inf.xlock]

    def mutable(self, kind, task):
        """Objects a task may apply a documented mutator to right now."""
        return [(h, o) for h, o, inf in self._iter(kind)
                if self.owner.get(h) == task and not inf.frozen and not inf.const and inf.rlocks == 0 and not inf.xlock]

    def own(self, kind, task):
        out = []
        for hid in sorted(self.handles):
            if self.owner.get(hid) != task:
                continue
            o = self.handles[hid]
            inf = self.info.get(id(o))
            if inf is not None and inf.kind == kind and not inf.xlock:
                out.append((hid, o))
        return out

    def alias_count(self, obj, except_hid=None):
        return sum(1 for h, o in self.handles.items() if o is obj and h != except_hid)

    def minor_info(self, hid):
        inf = self.info.get(id(self.handles.get(hid)))
        return None if inf is None else inf.minor

    def gc(self):
        live = set(id(o) for o in self.handles.values())
        # elements of live containers stay alive
        for o in list(self.handles.values()):
            if isinstance(o, (list, tuple)):
                for x in o:
                    live.add(id(x))
        for k in [k for k, inf in self.info.items() if k not in live and not inf.const]:
            del self.info[k]

    def age(self, now_op, hstride, keep_ops=80, max_handles=400):
        """Bound the pool: once it holds more than max_handles handles, the callers drop their references to
        objects they received more than keep_ops operations ago (objects in use by an in-flight call stay)."""
        if len(self.handles) <= max_handles:
            return 0
        n = 0
        for h in sorted(self.handles):
            if h < hstride or h // hstride >= now_op - keep_ops:
                continue
            inf = self.info.get(id(self.handles[h]))
            if inf is not None and (inf.const or inf.rlocks or inf.xlock):
                continue
            del self.handles[h]
            self.owner.pop(h, None)
            n += 1
        return n

    def check_all(self):
        """O1 over the whole pool: every object still shows the snapshot of its last legitimate write.
        Returns list of (ObjInfo, now_snapshot).  A large pool (> 500 objects) is checked in rotating
        slices of 300 plus the 100 youngest objects per call, so that the cost of one check is bounded."""
        bad = []
        infos = list(self.info.values())
        if len(infos) > 500:
            k = self._rot % len(infos)
            sel = infos[k:k + 300]
            if len(sel) < 300:
                sel += infos[:300 - len(sel)]
            self._rot += 300
            seen = set(id(x) for x in sel)
            sel += [x for x in infos[-100:] if id(x) not in seen]
            infos = sel
        for inf in infos:
            if inf.xlock:
                continue
            s = snap(inf.obj)
            if is_busy(inf.snap):
                # the model snapshot was taken while a repr of the same lists was running on this
                # thread (e.g. a copy made inside a pre-empted __repr__): adopt the first clean one
                if not is_busy(s):
                    inf.snap = s
                continue
            if s != inf.snap and not is_busy(s):
                bad.append((inf, s))
        return bad

    def check_everything(self):
        self._rot = 0
        saved = None
        bad = []
        infos = list(self.info.values())
        for inf in infos:
            if inf.xlock:
                continue
            s = snap(inf.obj)
            if is_busy(inf.snap):
                if not is_busy(s):
                    inf.snap = s
                continue
            if s != inf.snap and not is_busy(s):
                bad.append((inf, s))
        return bad


def reachable(values):
    """Pool-relevant objects reachable from call arguments (dedupe by identity)."""
    out, seen = [], set()

    def walk(o, d):
        if id(o) in seen:
            return
        k = kind_of(o)
        if k is None:
            return
        seen.add(id(o))
        out.append(o)
        if k in ('list', 'tuple') and d < 4:
            for x in o:
                walk(x, d + 1)
    for v in values:
        walk(v, 0)
    return out


class Builder(object):
    """Turns argument expressions into objects for ONE operation."""

    def __init__(self, pool, op, clones=None, hstride=HSTRIDE, rslots=RSLOTS):
        self.pool, self.op = pool, op
        self.hs, self.rs = hstride, rslots
        self.clones = clones
        self.fresh = []   # (hid, obj) registered by this build
        self.recv_obj = None

    def build(self, e, path=()):
        if 'f' in e:
            return float.fromhex(e['f'])
        if 'i' in e:
            return e['i']
        if 's' in e:
            return e['s']
        if 'b' in e:
            return e['b']
        if 'n' in e:
            return None
        if 'h' in e:
            if e['h'] in self.pool.handles:
                return self.pool.handles[e['h']]
            raise MissingHandle(e['h'])
        if 'new' in e:
            v = float.fromhex(e['v'])
            o = ops.CLASSES[e['new']](v)
            self._reg(e['slot'], o)
            return o
        if 'mk' in e:
            items = [self.build(x) for x in e['items']]
            o = items if e['mk'] == 'list' else tuple(items)
            for x in items:
                inf = self.pool.infoof(x)
                if inf is not None:
                    inf.frozen = True
            self._reg(e['slot'], o)
            return o
        if 'd' in e:
            return ops.make_date(e['d'])
        if 'dt' in e:
            return ops.make_datetime(e['dt'])
        if 'fn' in e:
            return ops.FUNCS[e['fn']]
        if 'attr' in e:
            return ops.resolve(e['attr'])
        if 'same' in e:
            return self.recv_obj
        if 'pk' in e:
            import base64
            o = pickle.loads(base64.b64decode(e['pk']))
            self._reg(e['slot'], o)
            return o
        raise ValueError('bad expr %r' % (e,))

    def _reg(self, slot, o):
        hid = self.op['id'] * self.hs + self.rs + slot
        self.pool.register(hid, o, self.op['task'], born=self.op['id'])
        self.fresh.append((hid, o))


class MissingHandle(Exception):
    pass
