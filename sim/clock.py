"""Clock seam: every wall-clock read pymeeus (or a repair of it) can make goes
through one simulated clock owned by the simulator.

install() must run BEFORE pymeeus is imported.  It
  * puts a proxy ``datetime`` module in sys.modules whose ``datetime``/``date``
    classes read the simulated clock in now()/utcnow()/today(); after the
    import of pymeeus the real module is put back (pymeeus modules keep the
    proxy in their globals, harness code keeps the real one);
  * patches the reads of the real ``time`` module (time, time_ns and the
    no-argument forms of localtime/gmtime/strftime/ctime/asctime).
Conversions *from a given timestamp* are left to libc and the per-run TZ.

The clock is a float of POSIX seconds.  Every read consumes the next entry of
the current "fault script" (a list of [kind, value]) and logs what it did.
Nothing here draws random numbers or reads a real clock.
"""
import sys
import time as _time
import types
import datetime as _real_dt

_real_time = _time.time
_real_time_ns = _time.time_ns
_real_localtime = _time.localtime
_real_gmtime = _time.gmtime
perf_counter = _time.perf_counter  # harness-private, never patched


class SimClock(object):
    def __init__(self):
        self.now = 1.0e9
        self.frozen = False
        self.script = None      # list of [kind, value] for the current op
        self.script_pos = 0
        self.default_tick = 0.001
        self.reads = 0
        self.log = None         # list to append (kind, before, after) or None
        self.counts = {}
        self.travel = 0.0       # sum of |clock movement| over all reads
        self.on_read = None     # callback(kind) for reach probes
        self.min_now = 86400.0 * 400
        self.max_now = 4.0e9

    def set_script(self, script):
        self.script = script
        self.script_pos = 0

    def read(self):
        """One wall-clock read: apply the next scripted fault, return POSIX s."""
        self.reads += 1
        if self.frozen:
            return self.now
        kind, val = 'tick', self.default_tick
        if self.script is not None and self.script_pos < len(self.script):
            kind, val = self.script[self.script_pos]
            self.script_pos += 1
        before = self.now
        if kind == 'tick':
            self.now += val
        elif kind == 'stall':
            pass
        elif kind == 'step' or kind == 'jump':
            self.now += val
        elif kind == 'straddle':
            # val = [period, eps_before]: this read lands eps before the next
            # boundary of `period` seconds (in local or UTC terms the offset is
            # a multiple of 15 min so minute boundaries coincide; hour/day
            # boundaries are placed in UTC or local by an added offset)
            period, eps, off = val
            t = self.now + off
            nxt = (int(t // period) + 1) * period
            self.now = nxt - off - eps
        elif kind == 'cross':
            # move just past the boundary prepared by a previous straddle
            period, eps, off = val
            t = self.now + off
            nxt = (int(t // period) + 1) * period
            self.now = nxt - off + eps
        if self.now < self.min_now:
            self.now = self.min_now
        if self.now > self.max_now:
            self.now = self.max_now
        self.counts[kind] = self.counts.get(kind, 0) + 1
        self.travel += abs(self.now - before)
        if self.log is not None:
            self.log.append((kind, before, self.now))
        if self.on_read is not None:
            self.on_read(kind, before, self.now)
        return self.now


CLOCK = SimClock()


class _Meta(type(_real_dt.date)):
    """isinstance(x, proxy.datetime) must accept real datetime objects that the
    caller (the harness) hands to pymeeus."""
    def __instancecheck__(cls, inst):
        return isinstance(inst, cls._real)

    def __subclasscheck__(cls, sub):
        return issubclass(sub, cls._real)


class sim_datetime(_real_dt.datetime, metaclass=_Meta):
    _real = _real_dt.datetime

    @classmethod
    def now(cls, tz=None):
        t = CLOCK.read()
        return _real_dt.datetime.fromtimestamp(t, tz)

    @classmethod
    def utcnow(cls):
        t = CLOCK.read()
        return _real_dt.datetime.fromtimestamp(t, _real_dt.timezone.utc).replace(tzinfo=None)

    @classmethod
    def today(cls):
        t = CLOCK.read()
        return _real_dt.datetime.fromtimestamp(t)


class sim_date(_real_dt.date, metaclass=_Meta):
    _real = _real_dt.date

    @classmethod
    def today(cls):
        t = CLOCK.read()
        return _real_dt.date.fromtimestamp(t)


def _sim_time():
    return CLOCK.read()


def _sim_time_ns():
    return int(CLOCK.read() * 1e9)


def _sim_localtime(secs=None):
    if secs is None:
        secs = CLOCK.read()
    return _real_localtime(secs)


def _sim_gmtime(secs=None):
    if secs is None:
        secs = CLOCK.read()
    return _real_gmtime(secs)


_real_strftime = _time.strftime
_real_ctime = _time.ctime
_real_asctime = _time.asctime


def _sim_strftime(fmt, t=None):
    if t is None:
        t = _real_localtime(CLOCK.read())
    return _real_strftime(fmt, t)


def _sim_ctime(secs=None):
    if secs is None:
        secs = CLOCK.read()
    return _real_ctime(secs)


def _sim_asctime(t=None):
    if t is None:
        t = _real_localtime(CLOCK.read())
    return _real_asctime(t)


_proxy = None
_installed = False


def install():
    """Put the seam in place.  Call before importing pymeeus."""
    global _proxy, _installed
    if _installed:
        return
    proxy = types.ModuleType('datetime')
    for k, v in vars(_real_dt).items():
        if not k.startswith('__') or k in ('__doc__',):
            setattr(proxy, k, v)
    proxy.datetime = sim_datetime
    proxy.date = sim_date
    _proxy = proxy
    sys.modules['datetime'] = proxy
    _time.time = _sim_time
    _time.time_ns = _sim_time_ns
    _time.localtime = _sim_localtime
    _time.gmtime = _sim_gmtime
    _time.strftime = _sim_strftime
    _time.ctime = _sim_ctime
    _time.asctime = _sim_asctime
    _installed = True


def after_import():
    """Restore the real datetime module for everything imported later."""
    sys.modules['datetime'] = _real_dt


def set_zone(tzname):
    import os
    os.environ['TZ'] = tzname
    _time.tzset()


def zone_name(offset_minutes):
    """POSIX TZ string for a fixed offset east of UTC (POSIX sign is inverted)."""
    if offset_minutes == 0:
        return 'UTC0'
    sign = '-' if offset_minutes > 0 else '+'
    a = abs(offset_minutes)
    return 'SIM%s%d:%02d' % (sign, a // 60, a % 60)
