"""Catalogue of public pymeeus callables the simulated callers may issue.

Each entry: name -> Entry(kind, target, effect, gen, weight, cost)
  kind   : call (function/static)  meth (bound method of receiver)  op (operator)
           new (constructor)
  effect : pure | mutator | rebind | ctor | copy | capture
  gen(g) : returns (recv_expr | None, [arg exprs], {kw: expr}) or None when no
           suitable receiver exists right now (entry skipped for this draw)
Domains are the documented ones, shrunk (DESIGN.md appendix A).
"""
from .gen import G, year2jde

ENTRIES = {}


class Entry(object):
    __slots__ = ('name', 'kind', 'target', 'effect', 'gen', 'weight', 'cost', 'group')

    def __init__(self, name, kind, target, effect, gen, weight=1.0, cost=300, group=''):
        self.name, self.kind, self.target, self.effect = name, kind, target, effect
        self.gen, self.weight, self.cost, self.group = gen, weight, cost, group


def add(name, kind, target, effect, gen, weight=1.0, cost=300, group=''):
    assert name not in ENTRIES, name
    ENTRIES[name] = Entry(name, kind, target, effect, gen, weight, cost, group)


# ------------------------------------------------------------------ base
add('base.machine_accuracy', 'call', 'base.machine_accuracy', 'pure', lambda g: (None, [], {}), 0.2, 200, 'base')
add('base.get_ordinal_suffix', 'call', 'base.get_ordinal_suffix', 'pure',
    lambda g: (None, [g.num(0, 200)], {}), 0.2, 20, 'base')
add('base.iint', 'call', 'base.iint', 'pure', lambda g: (None, [g.num(-1e6, 1e6)], {}), 0.2, 10, 'base')

# ------------------------------------------------------------------ Angle
A = 'Angle.Angle'


def _angle_new(g):
    a, k = g.angle_ctor_args()
    return None, a, k


def _is_copy(args):
    return len(args) == 1 and 'h' in args[0]


add('Angle.__init__', 'new', A, 'ctor', _angle_new, 4.0, 60, 'Angle')
add('Angle.reduce_deg', 'call', A + '.reduce_deg', 'pure', lambda g: (None, [g.num(-1e6, 1e6)], {}), 0.4, 20, 'Angle')
add('Angle.reduce_dms', 'call', A + '.reduce_dms', 'pure',
    lambda g: (None, [g.num(-1000, 1000), g.num(0, 200)] + ([g.num(0, 200)] if g.rng.random() < 0.7 else []), {}),
    0.4, 30, 'Angle')
add('Angle.deg2dms', 'call', A + '.deg2dms', 'pure', lambda g: (None, [g.num(-1e5, 1e5)], {}), 0.4, 30, 'Angle')
add('Angle.dms2deg', 'call', A + '.dms2deg', 'pure',
    lambda g: (None, [g.num(-1000, 1000), g.num(0, 200)] + ([g.num(0, 200)] if g.rng.random() < 0.7 else []), {}),
    0.4, 40, 'Angle')


def _ang_recv(g):
    return g.ang(-360, 360)


def _obs(name, target, argsf=None, w=0.5, cost=20, kind='meth'):
    def gen(g):
        r = _ang_recv(g)
        a, k = argsf(g) if argsf else ([], {})
        return r, a, k
    add('Angle.' + name, kind, target, 'pure', gen, w, cost, 'Angle')


_obs('__call__', 'call0', kind='op')
_obs('__str__', 'str', kind='op')
_obs('__repr__', 'repr', kind='op')
_obs('__float__', 'float', kind='op')
_obs('__int__', 'int', kind='op')
_obs('rad', 'rad')
_obs('get_ra', 'get_ra')
_obs('get_tolerance', 'get_tolerance')
_obs('dms_tuple', 'dms_tuple', cost=40)
_obs('ra_tuple', 'ra_tuple', cost=40)


def _str_args(g):
    r = g.rng.random()
    if r < 0.3:
        return [], {}
    if r < 0.6:
        return [g.b(), g.i(-1, 6)], {}
    k = {}
    if g.rng.random() < 0.6:
        k['fancy'] = g.b()
    if g.rng.random() < 0.8:
        k['n_dec'] = g.i(-1, 6)
    return [], k


_obs('dms_str', 'dms_str', _str_args, 0.8, 60)
_obs('ra_str', 'ra_str', _str_args, 0.8, 120)
_obs('__neg__', 'neg', kind='op', cost=40)
_obs('__abs__', 'abs', kind='op', cost=40)
_obs('__round__', 'round', lambda g: ([g.i(0, 8)], {}), kind='op', cost=40)
_obs('__round0__', 'round0', kind='op', cost=40)


def _operand(g, nz=False):
    """Right operand of an Angle operator: Angle, int or float (sometimes the receiver itself)."""
    if g.rng.random() < 0.06:
        g.probes.append('same_object_both_operands')
        return {"same": "recv"}
    r = g.rng.random()
    if nz:
        s = g.rng.choice([-1.0, 1.0])
        if r < 0.45:
            lo, hi = (1e-3, 359.0) if s > 0 else (-359.0, -1e-3)
            return g.ang(lo, hi)
        if r < 0.6:
            return {"i": int(s) * g.rng.randint(1, 400)}
        return g.fv(s * g.rng.uniform(1e-3, 400.0))
    if r < 0.45:
        return g.ang(-360, 360)
    return g.num(-400, 400)


for _n in ('eq', 'ne', 'lt', 'le', 'gt', 'ge'):
    _obs('__%s__' % _n, _n, lambda g: ([_operand(g)], {}), 0.3, 20, 'op')
for _n in ('add', 'sub', 'mul', 'radd', 'rsub', 'rmul'):
    _obs('__%s__' % _n, _n, lambda g: ([_operand(g) if True else None], {}), 0.6, 50, 'op')


def _rev_operand(g):
    # reflected forms are only reached with a non-Angle left operand
    return g.num(-400, 400)


for _n in ('radd', 'rsub', 'rmul'):
    ENTRIES['Angle.__%s__' % _n].gen = (lambda g: (_ang_recv(g), [_rev_operand(g)], {}))
_obs('__truediv__', 'truediv', lambda g: ([_operand(g, nz=True)], {}), 0.6, 60, 'op')
_obs('__mod__', 'mod', lambda g: ([_operand(g, nz=True)], {}), 0.5, 50, 'op')


def _nz_recv(g):
    s = g.rng.choice([-1.0, 1.0])
    lo, hi = (1e-3, 359.0) if s > 0 else (-359.0, -1e-3)
    return g.ang(lo, hi)


add('Angle.__rtruediv__', 'op', 'rtruediv', 'pure', lambda g: (_nz_recv(g), [g.num(-400, 400)], {}), 0.4, 60, 'Angle')
add('Angle.__rmod__', 'op', 'rmod', 'pure', lambda g: (_nz_recv(g), [g.num(-400, 400)], {}), 0.4, 60, 'Angle')


def _pow_exp(g):
    return g.rng.choice([{"i": 0}, {"i": 1}, {"i": 2}, {"f": (0.5).hex()}, {"f": (2.0).hex()}])


add('Angle.__pow__', 'op', 'pow', 'pure', lambda g: (g.ang(0.001, 359), [_pow_exp(g)], {}), 0.4, 50, 'Angle')
add('Angle.__rpow__', 'op', 'rpow', 'pure', lambda g: (g.ang(-5, 5), [g.num(0.5, 4.0)], {}), 0.3, 50, 'Angle')


def _iop(name, opname, argf, recvf=None, w=0.6):
    def gen(g):
        r = recvf(g)
        if r is None:
            return None
        return r, [argf(g)], {}
    add('Angle.' + name, 'op', opname, 'rebind', gen, w, 60, 'Angle')


def _own_handle(kind, pred=None):
    def f(g):
        return g.own_handle(kind, pred)
    return f


_iop('__iadd__', 'iadd', _operand, _own_handle('Angle'))
_iop('__isub__', 'isub', _operand, _own_handle('Angle'))
_iop('__imul__', 'imul', _operand, _own_handle('Angle'))
_iop('__itruediv__', 'itruediv', lambda g: _operand(g, nz=True), _own_handle('Angle'))
_iop('__imod__', 'imod', lambda g: _operand(g, nz=True), _own_handle('Angle'))
_iop('__ipow__', 'ipow', _pow_exp, _own_handle('Angle', lambda o: 0.001 < float(o) < 359), 0.3)


def _mut(name, target, argsf, w=0.6, cost=60):
    def gen(g):
        r = g.mutable('Angle')
        if r is None:
            return None
        a, k = argsf(g)
        return r, a, k
    add('Angle.' + name, 'meth', target, 'mutator', gen, w, cost, 'Angle')


_mut('set', 'set', lambda g: g.angle_ctor_args(), 1.2)
_mut('set_radians', 'set_radians', lambda g: ([g.num(-7, 7)], {}))
_mut('set_ra', 'set_ra', lambda g: ([g.num(0, 24)], {}) if g.rng.random() < 0.5 else
     ([g.i(0, 23), g.i(0, 59), g.f(0, 59.9)], {}))
_mut('set_tolerance', 'set_tolerance', lambda g: ([g.fv(10 ** g.rng.uniform(-12, -3))], {}))
_mut('to_positive', 'to_positive', lambda g: ([], {}))

# ------------------------------------------------------------------ Epoch
E = 'Epoch.Epoch'


def _epoch_new(g):
    a, k = g.epoch_ctor_args()
    return None, a, k


add('Epoch.__init__', 'new', E, 'ctor', _epoch_new, 4.0, 150, 'Epoch')


def _cid(g):
    a, k = g.dateargs(-4000, 5000)
    return None, a, k


add('Epoch.check_input_date', 'call', E + '.check_input_date', 'pure', _cid, 1.0, 150, 'Epoch')
add('Epoch.is_julian', 'call', E + '.is_julian', 'pure',
    lambda g: (None, [g.i(-4000, 5000), g.i(1, 12), g.i(1, 28)], {}), 0.3, 10, 'Epoch')
add('Epoch.get_month', 'call', E + '.get_month', 'pure',
    lambda g: (None, [g.month_expr(g.rng.randint(1, 12))] + ([g.b()] if g.rng.random() < 0.5 else []), {}),
    0.3, 20, 'Epoch')
add('Epoch.is_leap', 'call', E + '.is_leap', 'pure', lambda g: (None, [g.i(-4000, 5000)], {}), 0.3, 10, 'Epoch')
add('Epoch.get_doy', 'call', E + '.get_doy', 'pure',
    lambda g: (None, [g.i(-4000, 5000), g.i(1, 12), g.num(1, 28.9)], {}), 0.3, 30, 'Epoch')


def _doy2date(g):
    return None, [g.i(-4000, 5000), g.num(1, 365.9)], {}


add('Epoch.doy2date', 'call', E + '.doy2date', 'pure', _doy2date, 0.3, 30, 'Epoch')
def _leap_seconds(g):
    y = g.i(1950, 2100)
    if g.rng.random() < 0.5:
        # the years in which the documented leap-second table starts and ends, and the years it covers
        y['i'] = g.rng.choice([1971, 1972, 1972, 1973, 2015, 2016, 2016, 2016, 2017, 2017, 2018] +
                              [g.rng.randint(1972, 2017)] * 6)
    return None, [y, g.i(1, 12)], {}


add('Epoch.leap_seconds', 'call', E + '.leap_seconds', 'pure', _leap_seconds, 1.0, 60, 'Epoch')
add('Epoch.get_last_leap_second', 'call', E + '.get_last_leap_second', 'pure', lambda g: (None, [], {}), 0.3, 30, 'Epoch')
add('Epoch.utc2local', 'call', E + '.utc2local', 'pure', lambda g: (None, [], {}), 1.5, 10, 'Epoch')
add('Epoch.easter', 'call', E + '.easter', 'pure', lambda g: (None, [g.i(-4000, 9000)], {}), 0.3, 30, 'Epoch')
add('Epoch.jewish_pesach', 'call', E + '.jewish_pesach', 'pure', lambda g: (None, [g.i(1, 3000)], {}), 0.3, 30, 'Epoch')
add('Epoch.moslem2gregorian', 'call', E + '.moslem2gregorian', 'pure',
    lambda g: (None, [g.i(1, 2400), g.i(1, 12), g.i(1, 29)], {}), 0.3, 50, 'Epoch')
add('Epoch.gregorian2moslem', 'call', E + '.gregorian2moslem', 'pure',
    lambda g: (None, [g.i(700, 2900), g.i(1, 12), g.i(1, 28)], {}), 0.3, 60, 'Epoch')
add('Epoch.tt2ut', 'call', E + '.tt2ut', 'pure', lambda g: (None, [g.i(-1900, 2900), g.i(1, 12)], {}), 0.3, 20, 'Epoch')


def _ep_recv(g):
    return g.ep(-3999, 4999)


def _eobs(name, target, argsf=None, w=0.5, cost=40, kind='meth', recv=_ep_recv):
    def gen(g):
        r = recv(g)
        a, k = argsf(g) if argsf else ([], {})
        return r, a, k
    add('Epoch.' + name, kind, target, 'pure', gen, w, cost, 'Epoch')


_eobs('jde', 'jde', cost=5)
_eobs('mjd', 'mjd', cost=5)
_eobs('__call__', 'call0', kind='op', cost=5)
_eobs('__str__', 'str', kind='op', cost=5)
_eobs('__repr__', 'repr', kind='op', cost=5)
_eobs('__int__', 'int', kind='op', cost=5)
_eobs('__float__', 'float', kind='op', cost=5)
_eobs('__hash__', 'hash', kind='op', cost=5)
_eobs('julian', 'julian', cost=60)
_eobs('leap', 'leap', cost=60)
_eobs('doy', 'doy', cost=80)
_eobs('year', 'year', cost=120)
_eobs('dow', 'dow', lambda g: ([g.b()] if g.rng.random() < 0.5 else [], {}), cost=10)


def _getdate_kw(g):
    r = g.rng.random()
    if r < 0.35:
        return [], {}
    if r < 0.55:
        return [], {"utc": {"b": True}}
    if r < 0.68:
        return [], {"leap_seconds": g.num(10, 40)}
    if r < 0.78:
        # two keywords, spelled in either order (equal arguments either way)
        kw = [("utc", {"b": g.rng.random() < 0.8}), ("leap_seconds", g.num(10, 40))]
        if g.rng.random() < 0.5:
            kw.reverse()
        return [], dict(kw)
    g.probes.append('local_kw')
    if g.rng.random() < 0.25:
        kw = [("local", {"b": True}), ("leap_seconds", g.num(10, 40))]
        if g.rng.random() < 0.5:
            kw.reverse()
        return [], dict(kw)
    return [], {"local": {"b": True}}


_eobs('get_date', 'get_date', _getdate_kw, 1.5, 80, recv=lambda g: g.ep(-3999, 4999))
_eobs('get_full_date', 'get_full_date', _getdate_kw, 1.0, 90)
_eobs('mean_sidereal_time', 'mean_sidereal_time', cost=30)
_eobs('apparent_sidereal_time', 'apparent_sidereal_time',
      lambda g: ([g.ang_or_float(20, 25), g.ang_or_float(-0.01, 0.01)], {}), cost=50)
_eobs('rise_set', 'rise_set',
      lambda g: ([g.ang(-60, 60), g.ang(-180, 180)] + ([g.num(0, 4000)] if g.rng.random() < 0.6 else []), {}),
      0.8, 250, recv=lambda g: g.ep(-1999, 3999))
_eobs('__add__', 'add', lambda g: ([g.num(-1e5, 1e5)], {}), 0.8, 120, 'op')
_eobs('__radd__', 'radd', lambda g: ([g.num(-1e5, 1e5)], {}), 0.4, 120, 'op')


def _esub_arg(g):
    if g.rng.random() < 0.5:
        return [g.ep(-3999, 4999)], {}
    return [g.num(-1e5, 1e5)], {}


_eobs('__sub__', 'sub', _esub_arg, 0.8, 120, 'op')
for _n in ('eq', 'ne', 'lt', 'le', 'gt', 'ge'):
    _eobs('__%s__' % _n, _n,
          lambda g: ([g.ep(-3999, 4999) if g.rng.random() < 0.6 else g.f(1e5, 4.5e6)], {}), 0.3, 10, 'op')


def _eiop(name, opname):
    def gen(g):
        r = g.own_handle('Epoch', lambda o: 3.0e5 < o.jde() < 3.5e6)
        if r is None:
            return None
        return r, [g.num(-1e4, 1e4)], {}
    add('Epoch.' + name, 'op', opname, 'rebind', gen, 1.0, 120, 'Epoch')


_eiop('__iadd__', 'iadd')
_eiop('__isub__', 'isub')


def _eset(g):
    r = g.mutable('Epoch')
    if r is None:
        return None
    a, k = g.epoch_ctor_args()
    return r, a, k


add('Epoch.set', 'meth', 'set', 'mutator', _eset, 1.5, 150, 'Epoch')

from . import catalogue2  # noqa: E402,F401  (registers the remaining groups)
