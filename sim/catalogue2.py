"""Catalogue, part 2: Interpolation, CurveFitting, Coordinates, Earth, Sun, Moon,
planets, Pluto, Minor, JupiterMoons."""
import re

from .catalogue import add, ENTRIES  # noqa: F401

# ------------------------------------------------------------------ helpers


def _xs(g, n):
    xs = []
    x = g.rng.uniform(-50, 50)
    for _ in range(n):
        xs.append(x)
        x += g.rng.uniform(0.5, 5.0)
    return xs


def _table(g, shape=None):
    """(xs, ys) floats for an interpolation table; shape: root | extremum | any."""
    n = g.rng.randint(2, 7)
    if shape is None:
        shape = g.rng.choice(['root', 'extremum', 'any'])
    if shape == 'extremum' and n < 3:
        n = 3
    xs = _xs(g, n)
    if shape == 'root':
        a = g.rng.uniform(0.5, 3.0) * g.rng.choice([-1, 1])
        x0 = g.rng.uniform(xs[0] + 0.1, xs[-1] - 0.1)
        ys = [a * (x - x0) * (1.0 + 0.01 * (x - x0)) for x in xs]
    elif shape == 'extremum':
        a = g.rng.uniform(0.2, 2.0) * g.rng.choice([-1, 1])
        x0 = g.rng.uniform(xs[0] + 0.2, xs[-1] - 0.2)
        c = g.rng.uniform(-5, 5)
        ys = [a * (x - x0) ** 2 + c for x in xs]
    else:
        ys = [g.rng.uniform(-100, 100) for _ in xs]
    idx = list(range(n))
    if g.rng.random() < 0.5:
        g.rng.shuffle(idx)
    return [xs[i] for i in idx], [ys[i] for i in idx]


def _fl(g, vals, angles=False):
    out = []
    for v in vals:
        if angles:
            out.append(g.angv(v))
        elif v == int(v) and g.rng.random() < 0.3:
            out.append({"i": int(v)})
        else:
            out.append(g.fv(v))
    return out


_NUM_RE = re.compile(r'^\w+\(\[([^\]]*)\]')


def _xrange_of(o):
    """abscissa range of an Interpolation/CurveFitting, from its public repr."""
    m = _NUM_RE.match(repr(o))
    if not m or not m.group(1).strip():
        return None
    try:
        xs = [float(t) for t in m.group(1).split(',')]
    except ValueError:
        return None
    if len(xs) < 2:
        return None
    return min(xs), max(xs)


# ------------------------------------------------------------------ Interpolation
I = 'Interpolation.Interpolation'


def _interp_args(g):
    r = g.rng.random()
    if r < 0.25:
        e = g.any_of('Interpolation')
        if e is not None:
            g.probes.append('copy_ctor')
            return [e], {}
    xs, ys = _table(g)
    yang = g.rng.random() < 0.25
    if yang:
        ys = [max(-359.0, min(359.0, y)) for y in ys]
    if r < 0.3:
        return [g.mk(_fl(g, ys, yang))], {}
    if r < 0.8 or len(xs) < 2:
        return [g.mk(_fl(g, xs)), g.mk(_fl(g, ys, yang))], {}
    flat = []
    for x, y in zip(_fl(g, xs), _fl(g, ys, yang)):
        flat += [x, y]
    return flat, {}


def _interp_new(g):
    a, k = _interp_args(g)
    return None, a, k


add('Interpolation.__init__', 'new', I, 'capture', _interp_new, 2.5, 600, 'Interpolation')


def _interp_set(g):
    r = g.mutable('Interpolation')
    if r is None:
        return None
    a, k = _interp_args(g)
    return r, a, k


add('Interpolation.set', 'meth', 'set', 'mutator_capture', _interp_set, 1.5, 600, 'Interpolation')


def _interp_tol(g):
    r = g.mutable('Interpolation')
    if r is None:
        return None
    return r, [g.fv(10 ** g.rng.uniform(-12, -6))], {}


add('Interpolation.set_tolerance', 'meth', 'set_tolerance', 'mutator', _interp_tol, 0.4, 10, 'Interpolation')


def _interp_recv(g, need=None):
    c = g.pool.candidates('Interpolation')
    ok = []
    for h, o in c:
        try:
            rg = _xrange_of(o)
            if rg is None or len(o) < 2:
                continue
            if need == 'root':
                if not (o(rg[0]) * o(rg[1]) < 0):
                    continue
            if need == 'extremum':
                if len(o) < 3 or not (o.derivative(rg[0]) * o.derivative(rg[1]) < 0):
                    continue
            ok.append((h, rg))
        except Exception:
            continue
    if not ok:
        return None, None
    h, rg = ok[g.rng.randrange(len(ok))]
    return {"h": h}, rg


def _interp_eval(g):
    r, rg = _interp_recv(g)
    if r is None:
        return None
    w = rg[1] - rg[0]
    return r, [g.f(rg[0] + 0.01 * w, rg[1] - 0.01 * w)], {}


add('Interpolation.__call__', 'op', 'call1', 'pure', _interp_eval, 1.0, 100, 'Interpolation')
add('Interpolation.derivative', 'meth', 'derivative', 'pure', _interp_eval, 0.8, 200, 'Interpolation')


def _interp_root(need):
    def gen(g):
        r, rg = _interp_recv(g, need)
        if r is None:
            return None
        k = {}
        if g.rng.random() < 0.3:
            k = {"max_iter": g.iv(g.rng.choice([25, 40, 100, 1000]))}    # documented parameter
        if g.rng.random() < 0.7:
            return r, [], k
        return r, [g.fv(rg[0]), g.fv(rg[1])], k
    return gen


add('Interpolation.root', 'meth', 'root', 'pure', _interp_root('root'), 0.8, 800, 'Interpolation')
add('Interpolation.minmax', 'meth', 'minmax', 'pure', _interp_root('extremum'), 0.8, 2000, 'Interpolation')
for _n, _t in (('__len__', 'len'), ('__str__', 'str'), ('__repr__', 'repr')):
    add('Interpolation.' + _n, 'op', _t, 'pure',
        (lambda g: (lambda e: None if e is None else (e, [], {}))(g.any_of('Interpolation'))), 0.2, 10, 'Interpolation')
add('Interpolation.get_tolerance', 'meth', 'get_tolerance', 'pure',
    (lambda g: (lambda e: None if e is None else (e, [], {}))(g.any_of('Interpolation'))), 0.2, 5, 'Interpolation')

# ------------------------------------------------------------------ CurveFitting
C = 'CurveFitting.CurveFitting'


def _cf_args(g):
    r = g.rng.random()
    if r < 0.25:
        e = g.any_of('CurveFitting')
        if e is not None:
            g.probes.append('copy_ctor')
            return [e], {}
    n = g.rng.randint(4, 30)
    xs = _xs(g, n)
    a, b, c = g.rng.uniform(-2, 2), g.rng.uniform(-5, 5), g.rng.uniform(-20, 20)
    ys = [a * 0.05 * x * x + b * x + c + g.rng.uniform(-3, 3) for x in xs]
    idx = list(range(n))
    g.rng.shuffle(idx)
    xs, ys = [xs[i] for i in idx], [ys[i] for i in idx]
    if r < 0.75:
        return [g.mk(_fl(g, xs)), g.mk(_fl(g, ys))], {}
    flat = []
    for x, y in zip(_fl(g, xs), _fl(g, ys)):
        flat += [x, y]
    return flat, {}


add('CurveFitting.__init__', 'new', C, 'capture', lambda g: (None,) + _cf_args(g), 1.5, 400, 'CurveFitting')


def _cf_set(g):
    r = g.mutable('CurveFitting')
    if r is None:
        return None
    a, k = _cf_args(g)
    return r, a, k


add('CurveFitting.set', 'meth', 'set', 'mutator_capture', _cf_set, 1.0, 400, 'CurveFitting')


def _cf_recv(g):
    c = [(h, o) for h, o in g.pool.candidates('CurveFitting') if _safe_len(o) >= 4]
    if not c:
        return None
    return {"h": c[g.rng.randrange(len(c))][0]}


def _safe_len(o):
    try:
        return len(o)
    except Exception:
        return 0


def _cf_m(name, argsf=None, w=0.6, cost=60):
    def gen(g):
        r = _cf_recv(g)
        if r is None:
            return None
        a = argsf(g) if argsf else []
        return r, a, {}
    add('CurveFitting.' + name, 'meth', name, 'pure', gen, w, cost, 'CurveFitting')


_cf_m('correlation_coeff')
_cf_m('linear_fitting')
_cf_m('quadratic_fitting')


def _gf_args(g):
    menu = [['x2', 'x', 'one'], ['sin', 'cos', 'one'], ['x', 'one', 'sin'], ['sin'], ['x'], ['cos', 'x', 'one']]
    return [{"fn": n} for n in g.rng.choice(menu)]


_cf_m('general_fitting', _gf_args, 0.8, 500)
for _n, _t in (('__len__', 'len'), ('__str__', 'str'), ('__repr__', 'repr')):
    add('CurveFitting.' + _n, 'op', _t, 'pure',
        (lambda g: (lambda e: None if e is None else (e, [], {}))(g.any_of('CurveFitting'))), 0.2, 10, 'CurveFitting')

# ------------------------------------------------------------------ Coordinates
CO = 'Coordinates.'


def _co(name, gen, w=0.6, cost=300):
    add('Coordinates.' + name, 'call', CO + name, 'pure', gen, w, cost, 'Coordinates')


def _date_fn(y0, y1):
    def gen(g):
        a, k = g.dateargs(y0, y1)
        return None, a, k
    return gen


_co('mean_obliquity', _date_fn(-3000, 5000), 1.0, 200)
_co('true_obliquity', _date_fn(-3000, 5000), 1.0, 9000)
_co('nutation_longitude', _date_fn(-3000, 5000), 1.0, 4500)
_co('nutation_obliquity', _date_fn(-3000, 5000), 1.0, 4500)


def _pm(g):
    r = g.rng.random()
    if r < 0.4:
        return []
    if r < 0.7:
        return [g.f(-0.003, 0.003), g.f(-0.003, 0.003)]
    return [g.ang(-0.003, 0.003), g.ang(-0.003, 0.003)]


def _prec(g):
    return None, [g.ep(1000, 3000), g.ep(1000, 3000), g.ang(-360, 360), g.ang(-89, 89)] + _pm(g), {}


_co('precession_equatorial', _prec, 1.2, 400)
_co('precession_ecliptical', _prec, 1.0, 400)
_co('precession_newcomb', lambda g: (None, [g.ep(1700, 2200), g.ep(1700, 2200), g.ang(-360, 360), g.ang(-89, 89)] + _pm(g), {}),
    0.8, 400)
_co('p_motion_equa2eclip', lambda g: (None, [g.ang(-0.003, 0.003), g.ang(-0.003, 0.003), g.ang(-360, 360), g.ang(-89, 89),
                                              g.ang(-89, 89), g.ang(20, 25)], {}), 0.5, 60)
_co('motion_in_space', lambda g: (None, [g.ang(-360, 360), g.ang(-89, 89), g.f(1, 1000), g.f(-100, 100),
                                          g.ang_or_float(-0.003, 0.003), g.ang_or_float(-0.003, 0.003),
                                          g.f(-1e4, 1e4)], {}), 0.6, 150)
_co('equatorial2ecliptical', lambda g: (None, [g.ang(-360, 360), g.ang(-89, 89), g.ang(20, 25)], {}), 1.0, 120)
_co('ecliptical2equatorial', lambda g: (None, [g.ang(-360, 360), g.ang(-89, 89), g.ang(20, 25)], {}), 1.0, 120)
_co('equatorial2horizontal', lambda g: (None, [g.ang(-360, 360), g.ang(-89, 89), g.ang(-89, 89)], {}), 1.0, 100)
_co('horizontal2equatorial', lambda g: (None, [g.ang(-360, 360), g.ang(-89, 89), g.ang(-89, 89)], {}), 1.0, 100)
_co('equatorial2galactic', lambda g: (None, [g.ang(-360, 360), g.ang(-89, 89)], {}), 0.8, 200)
_co('galactic2equatorial', lambda g: (None, [g.ang(-360, 360), g.ang(-89, 89)], {}), 0.8, 200)
_co('parallactic_angle', lambda g: (None, [g.ang(-360, 360), g.ang(-89, 89), g.ang(-89, 89)], {}), 0.5, 60)
_co('ecliptic_horizon', lambda g: (None, [g.ang(-360, 360), g.ang(-89, 89), g.ang(20, 25)], {}), 0.6, 150)
_co('ecliptic_equator', lambda g: (None, [g.ang(-360, 360), g.ang(-89, 89), g.ang(20, 25)], {}), 0.5, 60)
_co('diurnal_path_horizon', lambda g: (None, [g.ang(-40, 40), g.ang(-40, 40)], {}), 0.5, 60)


def _refr(g):
    a = [g.ang(-30, 89)]      # below the horizon too: any elevation is a documented input
    r = g.rng.random()
    if r < 0.5:
        return None, a, {}
    if r < 0.8:
        return None, a + [g.num(900, 1100), g.num(-30, 40)], {}
    return None, a, {"pressure": g.num(900, 1100), "temperature": g.num(-30, 40)}


_co('refraction_apparent2true', _refr, 0.6, 300)
_co('refraction_true2apparent', _refr, 0.6, 300)


def _two_dirs(g):
    a1, d1 = g.rng.uniform(0, 359), g.rng.uniform(-80, 80)
    a2 = a1 + g.rng.choice([-1, 1]) * g.rng.uniform(0.05, 120)
    d2 = max(-85, min(85, d1 + g.rng.choice([-1, 1]) * g.rng.uniform(0.05, 60)))
    a2 = a2 % 360.0
    return [g.angv(a1), g.angv(d1), g.angv(a2), g.angv(d2)]


def _sep(g):
    if g.rng.random() < 0.5:
        return None, [g.ang(-360, 360), g.ang(-85, 85), g.ang(-360, 360), g.ang(-85, 85)], {}
    return None, _two_dirs(g), {}


_co('angular_separation', _sep, 1.0, 200)
_co('relative_position_angle', _sep, 0.8, 150)


def _ra(h, m, s):
    return (h + m / 60.0 + s / 3600.0) * 15.0


def _dm(d, m, s):
    sg = -1.0 if (d < 0 or m < 0 or s < 0) else 1.0
    return sg * (abs(d) + abs(m) / 60.0 + abs(s) / 3600.0)


def _jit(g, v, eps=2e-5):
    return g.angv(v + g.rng.uniform(-eps, eps))


_EX_LINE = [_ra(5, 32, 0.40), _dm(0, -17, 56.9), _ra(5, 36, 12.81), _dm(-1, 12, 7.0), _ra(5, 40, 45.52), _dm(-1, 56, 33.3)]
_EX_CIRC = [[_ra(12, 41, 8.63), _dm(-5, 37, 54.2), _ra(12, 52, 5.21), _dm(-4, 22, 26.2), _ra(12, 39, 28.11), _dm(-1, 50, 3.7)],
            [_ra(9, 5, 41.44), _dm(18, 30, 30.0), _ra(9, 9, 29.0), _dm(17, 43, 56.7), _ra(8, 59, 47.14), _dm(17, 49, 36.8)]]
_co('straight_line', lambda g: (None, [_jit(g, v, 1e-3) for v in _EX_LINE], {}), 0.5, 300)
_co('circle_diameter', lambda g: (None, [_jit(g, v, 1e-3) for v in g.rng.choice(_EX_CIRC)], {}), 0.5, 700)

_EX_MINSEP = [_ra(10, 29, 44.27), _dm(11, 2, 5.9), _ra(10, 36, 19.63), _dm(10, 29, 51.7), _ra(10, 43, 1.75), _dm(9, 55, 16.7),
              _ra(10, 33, 29.64), _dm(10, 40, 13.2), _ra(10, 33, 57.97), _dm(10, 37, 33.4), _ra(10, 34, 26.22), _dm(10, 34, 53.9)]
_co('minimum_angular_separation', lambda g: (None, [_jit(g, v) for v in _EX_MINSEP], {}), 0.6, 400)

_EX_PC = ([_ra(10, 24, 30.125), _ra(10, 25, 0.342), _ra(10, 25, 12.515), _ra(10, 25, 6.235), _ra(10, 24, 41.185)],
          [_dm(6, 26, 32.05), _dm(6, 10, 57.72), _dm(5, 57, 33.08), _dm(5, 46, 27.07), _dm(5, 37, 48.45)],
          [_ra(10, 27, 27.175), _ra(10, 26, 32.410), _ra(10, 25, 29.042), _ra(10, 24, 17.191), _ra(10, 22, 57.024)],
          [_dm(4, 4, 41.83), _dm(3, 55, 54.66), _dm(3, 48, 3.51), _dm(3, 41, 10.25), _dm(3, 35, 16.61)])


def _lists(g, cols, extra=False):
    out = []
    kind = g.rng.choice(['list', 'tuple'])
    for col in cols:
        items = [_jit(g, v) for v in col]
        if extra:
            items.append(g.angv(col[-1] + (col[-1] - col[-2])))
        out.append(g.mk(items, kind))
    return out


_co('planetary_conjunction', lambda g: (None, _lists(g, _EX_PC, g.rng.random() < 0.4), {}), 0.8, 3000)
_EX_PSC = ([_ra(15, 3, 51.937), _ra(15, 9, 57.327), _ra(15, 15, 37.898), _ra(15, 20, 50.632), _ra(15, 25, 32.695)],
           [_dm(-8, 57, 34.51), _dm(-9, 9, 3.88), _dm(-9, 17, 37.94), _dm(-9, 23, 16.25), _dm(-9, 26, 1.01)])
_co('planet_star_conjunction',
    lambda g: (None, _lists(g, _EX_PSC, g.rng.random() < 0.4) + [_jit(g, _ra(15, 17, 0.446)), _jit(g, _dm(-9, 22, 58.47))], {}),
    0.8, 3000)
_EX_PSL = ([_ra(7, 55, 55.36), _ra(7, 58, 22.55), _ra(8, 0, 48.99), _ra(8, 3, 14.66), _ra(8, 5, 39.54)],
           [_dm(21, 41, 3.0), _dm(21, 35, 23.4), _dm(21, 29, 38.2), _dm(21, 23, 47.5), _dm(21, 17, 51.4)])
_co('planet_stars_in_line',
    lambda g: (None, _lists(g, _EX_PSL, g.rng.random() < 0.4) + [_jit(g, _ra(7, 34, 16.40)), _jit(g, _dm(31, 53, 51.2)),
                                                                  _jit(g, _ra(7, 45, 0.10)), _jit(g, _dm(28, 2, 12.5))], {}),
    0.8, 2500)
_EX_RTS = [_dm(71, 5, 0.0), _dm(42, 20, 0.0), _ra(2, 42, 43.25), _dm(18, 2, 51.4), _ra(2, 46, 55.51), _dm(18, 26, 27.3),
           _ra(2, 51, 7.69), _dm(18, 49, 38.7), -0.5667]
_co('times_rise_transit_set',
    lambda g: (None, [_jit(g, v, 1e-3) for v in _EX_RTS] + [g.num(50, 70), _jit(g, _ra(11, 50, 58.1), 1e-3)], {}), 0.8, 900)
_co('apparent_position', lambda g: (None, [g.ep(-1900, 3900), g.ang(-360, 360), g.ang(-85, 85), g.ang(-360, 360)], {}), 0.8, 19000)
_co('orbital_equinox2equinox', lambda g: (None, [g.ep(1000, 3000), g.ep(1000, 3000), g.ang(2, 170), g.ang(-360, 360),
                                                  g.ang(-360, 360)], {}), 0.6, 300)
_co('kepler_equation', lambda g: (None, [g.num(0, 0.97) if g.rng.random() < 0.9 else {"i": 0}, g.ang(-360, 360)], {}), 1.0, 400)

PLANETS = ['Mercury', 'Venus', 'Earth', 'Mars', 'Jupiter', 'Saturn', 'Uranus', 'Neptune']


def _vsop(g):
    p = g.rng.choice(PLANETS)
    return [g.ep(-1900, 3900), {"attr": p + '.VSOP87_L'}, {"attr": p + '.VSOP87_B'}, {"attr": p + '.VSOP87_R'}]


_co('vsop_pos', lambda g: (None, _vsop(g), {}), 0.5, 8000)
_co('geometric_vsop_pos', lambda g: (None, _vsop(g) + ([g.b()] if g.rng.random() < 0.5 else []), {}), 0.5, 8000)
_co('apparent_vsop_pos', lambda g: (None, _vsop(g) + ([g.b()] if g.rng.random() < 0.5 else []), {}), 0.5, 12000)


def _orb_el(g):
    p = g.rng.choice(PLANETS)
    second = p + ('.ORBITAL_ELEM' if g.rng.random() < 0.5 else '.ORBITAL_ELEM_J2000')
    return None, [g.ep(-1900, 3900), {"attr": p + '.ORBITAL_ELEM'}, {"attr": second}], {}


_co('orbital_elements', _orb_el, 0.5, 150)


def _ra_pair(g):
    a = g.rng.uniform(0.3, 100)
    return [g.fv(a * g.rng.uniform(0.1, 1.9)), g.fv(a)]


_co('velocity', lambda g: (None, _ra_pair(g), {}), 0.3, 20)
_co('velocity_perihelion', lambda g: (None, [g.f(0, 0.99), g.f(0.3, 100)], {}), 0.3, 20)
_co('velocity_aphelion', lambda g: (None, [g.f(0, 0.99), g.f(0.3, 100)], {}), 0.3, 20)
_co('length_orbit', lambda g: (None, [g.f(0, 0.99), g.f(0.3, 100)], {}), 0.3, 30)
def _omega(g, lo, hi):
    # the argument of perihelion as orbital elements give it: reduced to (0, 360) or not (Neptune's is about -84 deg)
    if g.rng.random() < 0.4:
        return g.ang(lo - 360, hi - 360)
    return g.ang(lo, hi)


_co('passage_nodes_elliptic',
    lambda g: (None, [_omega(g, 5, 175), g.f(0, 0.97), g.f(0.3, 40), g.ep(-1900, 3900)] + ([g.b()] if g.rng.random() < 0.5 else []), {}),
    0.6, 200)
# omega kept 20 degrees away from 0/180: the node passage of a parabolic orbit recedes as tan^3(v/2) * q^1.5 and
# an instant before JD 0 is outside what Epoch documents (it fails with UnboundLocalError in get_date)
_co('passage_nodes_parabolic',
    lambda g: (None, [_omega(g, 20, 160), g.f(0.3, 8), g.ep(-1900, 3900)] + ([g.b()] if g.rng.random() < 0.5 else []), {}), 0.6, 200)


def _triangle(g):
    r = g.rng.uniform(0.3, 40)
    R = g.rng.uniform(0.98, 1.02)
    lo, hi = abs(r - R) + 0.01, r + R - 0.01
    d = g.rng.uniform(lo, hi)
    return [g.fv(r), g.fv(d), g.fv(R)]


_co('phase_angle', lambda g: (None, _triangle(g), {}), 0.4, 40)
_co('illuminated_fraction', lambda g: (None, _triangle(g), {}), 0.4, 20)

# ------------------------------------------------------------------ Earth / Ellipsoid
EA = 'Earth.Earth'
add('Ellipsoid.__init__', 'new', 'Earth.Ellipsoid', 'ctor',
    lambda g: (None, [g.f(6.0e6, 6.5e6), g.f(0.0, 0.01), g.f(7.0e-5, 7.5e-5)], {}), 0.5, 10, 'Earth')
for _n, _k, _t in (('b', 'meth', 'b'), ('e', 'meth', 'e'), ('__str__', 'op', 'str'), ('__repr__', 'op', 'repr')):
    add('Ellipsoid.' + _n, _k, _t, 'pure',
        (lambda g: (lambda e: None if e is None else (e, [], {}))(g.any_of('Ellipsoid'))), 0.2, 10, 'Earth')


def _earth_new(g):
    r = g.rng.random()
    if r < 0.4:
        return None, [], {}
    e = g.any_of('Ellipsoid')
    if e is None:
        return None, [], {}
    if r < 0.7:
        return None, [e], {}
    return None, [], {"ellipsoid": e}


add('Earth.__init__', 'new', EA, 'capture', _earth_new, 0.8, 30, 'Earth')


def _earth_set(g):
    r = g.mutable('Earth')
    e = g.any_of('Ellipsoid')
    if r is None or e is None:
        return None
    return r, [e], {}


add('Earth.set', 'meth', 'set', 'mutator_capture', _earth_set, 0.3, 20, 'Earth')


def _earth_m(name, argsf, w=0.4, cost=60):
    def gen(g):
        r = g.any_of('Earth')
        if r is None:
            return None
        return r, argsf(g), {}
    add('Earth.' + name, 'meth', name, 'pure', gen, w, cost, 'Earth')


def _lat(g):
    return g.ang_or_float(-89.9, 89.9)


_earth_m('rho', lambda g: [_lat(g)])
_earth_m('rho_sinphi', lambda g: [_lat(g), g.num(-400, 9000)])
_earth_m('rho_cosphi', lambda g: [_lat(g), g.num(-400, 9000)])
_earth_m('rp', lambda g: [_lat(g)])
_earth_m('linear_velocity', lambda g: [_lat(g)])
_earth_m('rm', lambda g: [_lat(g)])


def _dist(g):
    lo1, la1 = g.rng.uniform(-179, 179), g.rng.uniform(-85, 85)
    lo2 = lo1 + g.rng.choice([-1, 1]) * g.rng.uniform(0.01, 170)
    la2 = max(-85, min(85, la1 + g.rng.choice([-1, 1]) * g.rng.uniform(0.01, 80)))
    if g.rng.random() < 0.5:
        return [g.fv(lo1), g.fv(la1), g.fv(lo2), g.fv(la2)]
    return [g.angv(lo1), g.angv(la1), g.angv(lo2), g.angv(la2)]


_earth_m('distance', _dist, 0.5, 150)
for _n, _k, _t in (('__str__', 'op', 'str'), ('__repr__', 'op', 'repr')):
    add('Earth.' + _n, _k, _t, 'pure',
        (lambda g: (lambda e: None if e is None else (e, [], {}))(g.any_of('Earth'))), 0.2, 10, 'Earth')


def _st(cls_path, name, gen, w=0.5, cost=300, group=''):
    add(cls_path.split('.')[-1] + '.' + name, 'call', cls_path + '.' + name, 'pure', gen, w, cost, group)


def _epoch_only(y0, y1):
    return lambda g: (None, [g.ep(y0, y1)], {})


def _epoch_flag(y0, y1, kw=None):
    def gen(g):
        a = [g.ep(y0, y1)]
        r = g.rng.random()
        if r < 0.4:
            return None, a, {}
        if r < 0.7 or kw is None:
            return None, a + [g.b()], {}
        return None, a, {kw: g.b()}
    return gen


_st(EA, 'geometric_heliocentric_position', _epoch_flag(-1900, 3900, 'tofk5'), 0.8, 14000, 'Earth')
_st(EA, 'apparent_heliocentric_position', _epoch_flag(-1900, 3900, 'nutation'), 0.6, 19000, 'Earth')
_st(EA, 'geometric_heliocentric_position_j2000', _epoch_flag(-1900, 3900, 'tofk5'), 0.6, 4000, 'Earth')
_st(EA, 'orbital_elements_mean_equinox', _epoch_only(-1900, 3900), 0.4, 150, 'Earth')
_st(EA, 'orbital_elements_j2000', _epoch_only(-1900, 3900), 0.4, 150, 'Earth')
_st(EA, 'perihelion_aphelion', _epoch_flag(-1900, 3900, 'perihelion'), 0.3, 45000, 'Earth')
_st(EA, 'passage_nodes', _epoch_flag(-1900, 3900, 'ascending'), 0.3, 45000, 'Earth')
_st(EA, 'parallax_correction',
    lambda g: (None, [g.ang(-360, 360), g.ang(-85, 85), g.ang(-85, 85), g.f(0.002, 50), g.ang(-180, 180)] +
               ([g.f(0, 4000)] if g.rng.random() < 0.5 else []), {}), 0.5, 300, 'Earth')
_st(EA, 'parallax_ecliptical',
    lambda g: (None, [g.ang(-360, 360), g.ang(-85, 85), g.ang(0.001, 0.5), g.ang(-85, 85), g.ang(20, 25), g.ang(-360, 360),
                      g.f(0.002, 50)] + ([g.f(0, 4000)] if g.rng.random() < 0.5 else []), {}), 0.5, 400, 'Earth')

# ------------------------------------------------------------------ Sun
SU = 'Sun.Sun'
for _n, _c in (('true_longitude_coarse', 200), ('apparent_longitude_coarse', 300),
               ('apparent_rightascension_declination_coarse', 600)):
    _st(SU, _n, _epoch_only(-1900, 3900), 0.5, _c, 'Sun')
_st(SU, 'geometric_geocentric_position', _epoch_flag(-1900, 3900, 'tofk5'), 0.6, 14000, 'Sun')
_st(SU, 'apparent_geocentric_position', _epoch_flag(-1900, 3900, 'nutation'), 0.6, 19000, 'Sun')
_st(SU, 'rectangular_coordinates_mean_equinox', _epoch_only(1000, 3000), 0.4, 14500, 'Sun')
_st(SU, 'rectangular_coordinates_j2000', _epoch_only(1000, 3000), 0.4, 4500, 'Sun')
_st(SU, 'rectangular_coordinates_b1950', _epoch_only(1000, 3000), 0.4, 4500, 'Sun')
_st(SU, 'rectangular_coordinates_equinox', lambda g: (None, [g.ep(1000, 3000), g.ep(1700, 2300)], {}), 0.4, 5000, 'Sun')
_st(SU, 'get_equinox_solstice',
    lambda g: (None, [g.i(-900, 2900)] + ([g.s(g.rng.choice(['spring', 'summer', 'autumn', 'winter']))]
                                          if g.rng.random() < 0.8 else []), {}), 0.3, 60000, 'Sun')
_st(SU, 'equation_of_time', _epoch_only(-1900, 3900), 0.4, 33000, 'Sun')
_st(SU, 'ephemeris_physical_observations', _epoch_only(-1900, 3900), 0.4, 33000, 'Sun')
_st(SU, 'beginning_synodic_rotation', lambda g: (None, [g.i(-3000, 5000)], {}), 0.3, 150, 'Sun')

# ------------------------------------------------------------------ Moon
MO = 'Moon.Moon'
for _n, _c in (('geocentric_ecliptical_pos', 6000), ('apparent_ecliptical_pos', 10500), ('apparent_equatorial_pos', 20000),
               ('longitude_mean_ascending_node', 100), ('longitude_true_ascending_node', 400),
               ('longitude_mean_perigee', 100), ('illuminated_fraction_disk', 40000), ('position_bright_limb', 40000),
               ('moon_librations', 30000), ('moon_position_angle_axis', 30000)):
    _st(MO, _n, _epoch_only(-1900, 3900), 0.4, _c, 'Moon')


def _target(y0, y1, targets):
    def gen(g):
        a = [g.ep(y0, y1)]
        r = g.rng.random()
        if r < 0.25:
            return None, a, {}
        t = g.s(g.rng.choice(targets))
        if r < 0.7:
            return None, a + [t], {}
        return None, a, {"target": t}
    return gen


_st(MO, 'moon_phase', _target(-1900, 3900, ['new', 'first', 'full', 'last']), 0.5, 600, 'Moon')
_st(MO, 'moon_perigee_apogee', _target(-1900, 3900, ['perigee', 'apogee']), 0.5, 1500, 'Moon')
_st(MO, 'moon_passage_nodes', _target(-1900, 3900, ['ascending', 'descending']), 0.5, 500, 'Moon')
_st(MO, 'moon_maximum_declination', _target(-1900, 3900, ['northern', 'southern']), 0.5, 900, 'Moon')

# ------------------------------------------------------------------ planets
_COSTS = {'Mercury': 30000, 'Venus': 9000, 'Mars': 26000, 'Jupiter': 16000, 'Saturn': 26000, 'Uranus': 18000,
          'Neptune': 9000}


def _mag3(g):
    return None, [g.f(0.3, 40), g.f(0.3, 40), g.ang(0, 170) if g.rng.random() < 0.5 else g.f(0, 170)], {}


def _mag2(g):
    return None, [g.f(0.3, 40), g.f(0.3, 40)], {}


for _p in ['Mercury', 'Venus', 'Mars', 'Jupiter', 'Saturn', 'Uranus', 'Neptune']:
    _cp = _p + '.' + _p
    _c = _COSTS[_p]
    _st(_cp, 'geometric_heliocentric_position', _epoch_flag(-1900, 3900, 'tofk5'), 0.5, _c, _p)
    _st(_cp, 'apparent_heliocentric_position', _epoch_only(-1900, 3900), 0.4, _c + 5000, _p)
    _st(_cp, 'orbital_elements_mean_equinox', _epoch_only(-1900, 3900), 0.3, 150, _p)
    _st(_cp, 'orbital_elements_j2000', _epoch_only(-1900, 3900), 0.3, 150, _p)
    _st(_cp, 'geocentric_position', _epoch_only(-1900, 3900), 0.5, 2 * _c + 60000, _p)
    if _p in ('Mercury', 'Venus'):
        for _f in ('inferior_conjunction', 'superior_conjunction', 'western_elongation', 'eastern_elongation',
                   'station_longitude_1', 'station_longitude_2'):
            _st(_cp, _f, _epoch_only(-1900, 3900), 0.25, 300, _p)
    else:
        for _f in ('conjunction', 'opposition'):
            _st(_cp, _f, _epoch_only(-1900, 3900), 0.3, 300, _p)
        if _p in ('Mars', 'Jupiter', 'Saturn'):
            for _f in ('station_longitude_1', 'station_longitude_2'):
                _st(_cp, _f, _epoch_only(-1900, 3900), 0.3, 300, _p)
    if _p != 'Neptune':
        _st(_cp, 'perihelion_aphelion', _epoch_flag(-1900, 3900, 'perihelion'), 0.25, 3 * _c + 3000, _p)
        _st(_cp, 'passage_nodes', _epoch_flag(-1900, 3900, 'ascending'), 0.25, 3 * _c + 3500, _p)
    if _p in ('Mercury', 'Venus', 'Mars'):
        _st(_cp, 'magnitude', _mag3, 0.3, 20, _p)
    elif _p == 'Saturn':
        _st(_cp, 'magnitude', lambda g: (None, [g.f(0.3, 40), g.f(0.3, 40), g.ang_or_float(-6, 6) if False else g.f(-6, 6),
                                                g.ang(-27, 27) if g.rng.random() < 0.5 else g.f(-27, 27)], {}), 0.3, 60, _p)
    else:
        _st(_cp, 'magnitude', _mag2, 0.3, 20, _p)
_st('Venus.Venus', 'illuminated_fraction', _epoch_only(-1900, 3900), 0.3, 300, 'Venus')
_st('Saturn.Saturn', 'ring_inclination', _epoch_only(-1900, 3900), 0.3, 100, 'Saturn')
_st('Saturn.Saturn', 'ring_logitude_ascending_node', _epoch_only(-1900, 3900), 0.3, 100, 'Saturn')
_st('Saturn.Saturn', 'ring_parameters', _epoch_only(-1900, 3900), 0.3, 90000, 'Saturn')

# ------------------------------------------------------------------ Pluto
_st('Pluto.Pluto', 'geometric_heliocentric_position', _epoch_only(1890, 2095), 0.4, 700, 'Pluto')
_st('Pluto.Pluto', 'geocentric_position', _epoch_only(1890, 2095), 0.4, 6500, 'Pluto')

# ------------------------------------------------------------------ Minor
MI = 'Minor.Minor'


def _minor_args(g):
    r = g.rng.random()
    if r < 0.7:
        e = g.rng.uniform(0.0, 0.9)
    elif r < 0.85:
        e = 1.0
    else:
        e = g.rng.uniform(0.985, 0.999)
    return [g.f(0.3, 8), g.fv(e), g.ang(0, 170), g.ang(-360, 360), g.ang(-360, 360), g.ep(1700, 2300)]


add('Minor.__init__', 'new', MI, 'capture', lambda g: (None, _minor_args(g), {}), 0.8, 150, 'Minor')


def _minor_set(g):
    r = g.mutable('Minor')
    if r is None:
        return None
    return r, _minor_args(g), {}


add('Minor.set', 'meth', 'set', 'mutator_capture', _minor_set, 0.2, 150, 'Minor')


def _minor_pos(elliptic_only):
    def gen(g):
        c = g.pool.candidates('Minor')
        ok = []
        for h, o in c:
            info = g.pool.minor_info(h)
            if info is None:
                continue
            e, tjde = info
            if elliptic_only and e >= 0.9:
                continue
            ok.append((h, e, tjde))
        if not ok:
            return None
        h, e, tjde = ok[g.rng.randrange(len(ok))]
        span = 200.0 if e > 0.95 else 30 * 365.0
        return {"h": h}, [g.epv(tjde + g.rng.uniform(-span, span))], {}
    return gen


add('Minor.geocentric_position', 'meth', 'geocentric_position', 'pure', _minor_pos(False), 0.8, 12000, 'Minor')
add('Minor.heliocentric_ecliptical_position', 'meth', 'heliocentric_ecliptical_position', 'pure', _minor_pos(True),
    0.8, 800, 'Minor')

# ------------------------------------------------------------------ JupiterMoons
JM = 'JupiterMoons.JupiterMoons'
_st(JM, 'jupiter_system_angles', _epoch_only(1900, 2100), 0.3, 60000, 'JupiterMoons')


def _jm_rect(g):
    a = [g.ep(1900, 2100)]
    k = {}
    for n in ('tofk5', 'solar', 'do_correction'):
        if g.rng.random() < 0.3:
            k[n] = g.b()
    return None, a, k


_st(JM, 'rectangular_positions_jovian_equatorial', _jm_rect, 0.4, 70000, 'JupiterMoons')
_st(JM, 'apparent_rectangular_coordinates',
    lambda g: (None, [g.ep(1900, 2100), g.f(-26, 26), g.f(-26, 26), g.f(-2, 2), g.f(90, 110), g.f(300, 330), g.f(1.2, 1.4),
                      g.f(-3.1, 3.1), g.f(-0.1, 0.1)] + ([g.f(-0.5, 0.5)] if g.rng.random() < 0.7 else []), {}),
    0.3, 80, 'JupiterMoons')
_st(JM, 'calculate_delta', _epoch_only(1900, 2100), 0.3, 60000, 'JupiterMoons')
_st(JM, 'correct_rectangular_positions',
    lambda g: (None, [g.f(5, 27), g.i(1, 4), g.f(4, 6.5)] +
               ([g.mk([g.f(-4, 4), g.f(-4, 4), g.f(-4, 4)])] if g.rng.random() < 0.5 else [g.f(-4, 4), g.f(-4, 4), g.f(-4, 4)]), {}),
    0.3, 40, 'JupiterMoons')
_st(JM, 'check_phenomena', lambda g: (None, [g.ep(1900, 2100)] + ([{"b": False}, g.i(1, 4)] if g.rng.random() < 0.3 else []), {}),
    0.2, 140000, 'JupiterMoons')
_st(JM, 'is_phenomena', _epoch_only(1900, 2100), 0.2, 140000, 'JupiterMoons')
_st(JM, 'check_coordinates', lambda g: (None, [g.f(-30, 30), g.f(-30, 30)], {}), 0.2, 10, 'JupiterMoons')
_st(JM, 'check_occultation',
    lambda g: (None, [g.f(-30, 30), g.f(-30, 30), g.f(-30, 30)], {}) if g.rng.random() < 0.6 else
    (None, [], {"epoch": g.ep(1900, 2100), "i_sat": g.i(1, 4)}), 0.2, 20, 'JupiterMoons')
_st(JM, 'check_eclipse',
    lambda g: (None, [g.f(-30, 30), g.f(-30, 30), g.f(-30, 30)], {}) if g.rng.random() < 0.6 else
    (None, [], {"epoch": g.ep(1900, 2100), "i_sat": g.i(1, 4)}), 0.2, 20, 'JupiterMoons')


# ------------------------------------------------------------------ copy constructors, as entries of their own
def _copy_of(kind):
    def gen(g):
        e = g.any_of(kind)
        if e is None:
            return None
        g.probes.append('copy_ctor')
        return None, [e], {}
    return gen


add('Angle.__init__#copy', 'new', 'Angle.Angle', 'capture', _copy_of('Angle'), 0.8, 30, 'Angle')
add('Epoch.__init__#copy', 'new', 'Epoch.Epoch', 'capture', _copy_of('Epoch'), 0.8, 120, 'Epoch')
add('Interpolation.__init__#copy', 'new', I, 'capture', _copy_of('Interpolation'), 0.8, 30, 'Interpolation')
add('CurveFitting.__init__#copy', 'new', C, 'capture', _copy_of('CurveFitting'), 0.6, 30, 'CurveFitting')


def _copy_set(kind):
    def gen(g):
        r = g.mutable(kind)
        e = g.any_of(kind)
        if r is None or e is None or r == e:
            return None
        return r, [e], {}
    return gen


def _self_set(kind):
    def gen(g):
        r = g.mutable(kind)
        if r is None:
            return None
        return r, [dict(r)], {}
    return gen


# x.set(x): "another object of the class" is a documented input of set(), and the object itself is one
for _k, _w, _c in (('Angle', 0.7, 30), ('Epoch', 0.5, 120), ('Interpolation', 0.5, 30), ('CurveFitting', 0.5, 30)):
    add(_k + '.set#self', 'meth', 'set', 'mutator', _self_set(_k), _w, _c, _k)
add('Angle.set#copy', 'meth', 'set', 'mutator_capture', _copy_set('Angle'), 0.4, 30, 'Angle')
add('Epoch.set#copy', 'meth', 'set', 'mutator_capture', _copy_set('Epoch'), 0.4, 120, 'Epoch')
add('Interpolation.set#copy', 'meth', 'set', 'mutator_capture', _copy_set('Interpolation'), 1.0, 30, 'Interpolation')
add('CurveFitting.set#copy', 'meth', 'set', 'mutator_capture', _copy_set('CurveFitting'), 1.0, 30, 'CurveFitting')


# ------------------------------------------------------------------ VSOP evaluators on caller-owned tables
def _own_table(g):
    series = []
    for k in range(g.rng.randint(2, 4)):
        terms = []
        for _ in range(g.rng.randint(1, 4)):
            terms.append(g.mk([g.fv(g.rng.uniform(1e3, 1e8) / (10 ** k)), g.f(0, 6.28), g.f(0, 7000)], 'list'))
        series.append(g.mk(terms, 'list'))
    return g.mk(series, 'list')


def _vsop_own(g):
    return [g.ep(-1900, 3900), _own_table(g), _own_table(g), _own_table(g)]


add('Coordinates.vsop_pos#own', 'call', CO + 'vsop_pos', 'pure', lambda g: (None, _vsop_own(g), {}), 0.5, 300, 'Coordinates')
add('Coordinates.geometric_vsop_pos#own', 'call', CO + 'geometric_vsop_pos', 'pure',
    lambda g: (None, _vsop_own(g) + ([g.b()] if g.rng.random() < 0.5 else []), {}), 0.4, 400, 'Coordinates')
add('Coordinates.apparent_vsop_pos#own', 'call', CO + 'apparent_vsop_pos', 'pure',
    lambda g: (None, _vsop_own(g), {}), 0.3, 5000, 'Coordinates')


# ------------------------------------------------------------------ calls that the library must REJECT
# Histories in which some calls are rejected are still histories: a ValueError/TypeError must leave no
# trace (O1), and the calls after it must behave as if it had not happened (O2).  No expectation is
# attached to the outcome of these calls themselves (some generated dates are valid on purpose).
def _edge_date(g):
    rng = g.rng
    y = rng.choice([rng.randint(-3000, 4000), rng.choice([1500, 1600, 1700, 1900, 2000, 2019, 2020, 2024, 2100, -4, -100])])
    r = rng.random()
    if r < 0.45:
        m, d = 2, rng.choice([28, 29, 29, 30, 30, 31])
    elif r < 0.65:
        m, d = rng.choice([4, 6, 9, 11]), rng.choice([30, 31, 31])
    elif r < 0.8:
        m, d = rng.randint(1, 12), rng.choice([0, 32, -1, 31])
    else:
        m, d = rng.choice([0, 13]), rng.randint(1, 28)
    return y, m, d


def _bad_epoch_args(g):
    y, m, d = _edge_date(g)
    r = g.rng.random()
    if r < 0.15:
        return [g.iv(y), g.iv(m), g.fv(d + 0.5)], {}
    if r < 0.25:
        return [g.iv(y), g.iv(max(1, min(12, m))), g.iv(max(1, min(28, d))), g.iv(g.rng.choice([24, 25, -1]))], {}
    if r < 0.3:
        return [g.iv(y), g.iv(m)], {}
    if r < 0.35:
        return [g.s('2000-01-01')], {}
    if r < 0.5:
        return [g.mk([g.iv(y), g.iv(m), g.iv(d)])], {}
    kw = {}
    if g.rng.random() < 0.3:
        kw = {"utc": {"b": True}}
    return [g.iv(y), g.iv(m), g.iv(d)], kw


add('Epoch.__init__#bad', 'new', 'Epoch.Epoch', 'ctor', lambda g: (None,) + _bad_epoch_args(g), 1.5, 100, 'Epoch')
add('Epoch.check_input_date#bad', 'call', 'Epoch.Epoch.check_input_date', 'pure', lambda g: (None,) + _bad_epoch_args(g),
    0.8, 100, 'Epoch')


def _bad_set(g):
    r = g.mutable('Epoch')
    if r is None:
        return None
    a, k = _bad_epoch_args(g)
    return r, a, k


add('Epoch.set#bad', 'meth', 'set', 'mutator', _bad_set, 0.6, 100, 'Epoch')
add('Epoch.get_doy#bad', 'call', 'Epoch.Epoch.get_doy', 'pure',
    lambda g: (None, [g.iv(x) for x in _edge_date(g)], {}), 0.5, 30, 'Epoch')
add('Coordinates.mean_obliquity#bad', 'call', CO + 'mean_obliquity', 'pure', lambda g: (None,) + _bad_epoch_args(g), 0.4, 200,
    'Coordinates')
add('Angle.__init__#bad', 'new', 'Angle.Angle', 'ctor',
    lambda g: (None, [g.rng.choice([g.s('12.5'), {"n": None}, g.mk([])])], {}), 0.4, 20, 'Angle')


def _bad_interp(g):
    xs = _xs(g, g.rng.randint(3, 5))
    xs[-1] = xs[0]
    ys = [g.rng.uniform(-5, 5) for _ in xs]
    return None, [g.mk(_fl(g, xs)), g.mk(_fl(g, ys))], {}


add('Interpolation.__init__#bad', 'new', I, 'capture', _bad_interp, 0.4, 200, 'Interpolation')


def _interp_outside(g):
    r, rg = _interp_recv(g)
    if r is None:
        return None
    w = rg[1] - rg[0]
    return r, [g.fv(rg[1] + g.rng.uniform(0.1, 2.0) * w if g.rng.random() < 0.5 else rg[0] - g.rng.uniform(0.1, 2.0) * w)], {}


add('Interpolation.__call__#bad', 'op', 'call1', 'pure', _interp_outside, 0.4, 60, 'Interpolation')
add('Interpolation.derivative#bad', 'meth', 'derivative', 'pure', _interp_outside, 0.3, 60, 'Interpolation')


def _far_epoch(g):
    return g.epv(2451545.0 + 365.25 * g.rng.choice([g.rng.uniform(2100, 3500), g.rng.uniform(-6000, -4100)]))


for _p, _f in (('Venus', 'inferior_conjunction'), ('Mercury', 'station_longitude_1'), ('Mars', 'opposition'),
               ('Jupiter', 'conjunction'), ('Saturn', 'station_longitude_2'), ('Uranus', 'opposition'),
               ('Neptune', 'conjunction')):
    _st(_p + '.' + _p, _f + '#bad', None, 0.0, 300, _p)
    ENTRIES[_p + '.' + _f + '#bad'].target = _p + '.' + _p + '.' + _f
    ENTRIES[_p + '.' + _f + '#bad'].gen = (lambda g: (None, [_far_epoch(g)], {}))
    ENTRIES[_p + '.' + _f + '#bad'].weight = 0.12
_st('Pluto.Pluto', 'geocentric_position#bad', None, 0.3, 200, 'Pluto')
ENTRIES['Pluto.geocentric_position#bad'].target = 'Pluto.Pluto.geocentric_position'
ENTRIES['Pluto.geocentric_position#bad'].gen = (
    lambda g: (None, [g.epv(2451545.0 + 365.25 * g.rng.choice([g.rng.uniform(-116.0, -114.9), g.rng.uniform(99.0, 101.0),
                                                                  g.rng.uniform(150, 400)]))], {}))
add('Moon.moon_phase#bad', 'call', MO + '.moon_phase', 'pure',
    lambda g: (None, [g.ep(-1900, 3900), g.s(g.rng.choice(['gibbous', 'New', '']))], {}), 0.2, 50, 'Moon')
add('Sun.get_equinox_solstice#bad', 'call', SU + '.get_equinox_solstice', 'pure',
    lambda g: (None, [g.iv(g.rng.choice([3001, 3500, -1001, -2000])), g.s('spring')], {}) if g.rng.random() < 0.6
    else (None, [g.i(-900, 2900), g.s('fall')], {}), 0.2, 50, 'Sun')
add('Epoch.rise_set#bad', 'meth', 'rise_set', 'pure',
    lambda g: (g.ep(-1999, 3999), [g.angv(g.rng.choice([-1, 1]) * g.rng.uniform(66.6, 89.0)), g.ang(-180, 180)], {}),
    0.2, 100, 'Epoch')


# ------------------------------------------------------------------ static methods reached THROUGH AN INSTANCE
# (e.leap_seconds(1983, 7), a.reduce_deg(400): legal Python for a staticmethod, and the only way to notice
# that an object's own attributes shadow a method of its class)
def _via_instance(base, cls_kind, recv_gen):
    e0 = ENTRIES[base]
    attr = e0.target.split('.')[-1]

    def gen(g):
        r = e0.gen(g)
        if r is None:
            return None
        return recv_gen(g), r[1], r[2]
    add(base + '@inst', 'meth', attr, 'pure', gen, 0.12, e0.cost, e0.group)


for _n in ('Epoch.check_input_date', 'Epoch.is_julian', 'Epoch.get_month', 'Epoch.is_leap', 'Epoch.get_doy',
           'Epoch.doy2date', 'Epoch.leap_seconds', 'Epoch.get_last_leap_second', 'Epoch.utc2local', 'Epoch.easter',
           'Epoch.jewish_pesach', 'Epoch.moslem2gregorian', 'Epoch.gregorian2moslem', 'Epoch.tt2ut'):
    _via_instance(_n, 'Epoch', lambda g: g.ep(-3999, 4999))
for _n in ('Angle.reduce_deg', 'Angle.reduce_dms', 'Angle.deg2dms', 'Angle.dms2deg'):
    _via_instance(_n, 'Angle', lambda g: g.ang(-360, 360))
