"""Process layer.  A *pristine worker* installs the clock seam, imports pymeeus
from /repo and never executes a pymeeus operation itself.  Every simulated run
is executed in a fresh fork of it (pass S), and its solo reference in another
fresh fork, so no run can depend on an earlier one."""
import io
import json
import os
import pickle
import random
import select
import signal
import sys
import time as _time
import hashlib

REPO = os.environ.get('VERIF_REPO', '/repo')

from . import clock  # noqa: E402

_perf = clock.perf_counter
BOOT = {}


def boot():
    """Make this process a pristine pre-imported worker."""
    if BOOT:
        return BOOT
    clock.install()
    if REPO not in sys.path:
        sys.path.insert(0, REPO)
    from . import ops
    mods = ops.load_pymeeus()
    clock.after_import()
    import pymeeus
    pm = os.path.dirname(os.path.abspath(pymeeus.__file__))
    if not pm.startswith(os.path.abspath(REPO) + os.sep):
        raise RuntimeError('pymeeus imported from %s, expected under %s' % (pm, REPO))
    from .snap import module_digest
    from . import catalogue  # noqa: F401
    BOOT['mods'] = mods
    BOOT['import_digest'] = module_digest(mods)
    BOOT['import_names'] = module_digest(mods, per_name=True)
    BOOT['pm_dir'] = pm
    tables = {}
    import re
    rx = re.compile(r'^[A-Z][A-Z0-9_]*$')
    for mn, m in mods.items():
        for k, v in vars(m).items():
            if rx.match(k) and not isinstance(v, (int, float, str, bool, type(None))):
                tables.setdefault(id(v), mn + '.' + k)
    BOOT['tables'] = tables
    steps = {}
    p = os.path.join(os.path.dirname(__file__), 'steps.json')
    if os.path.exists(p):
        steps = json.load(open(p))
    BOOT['steps'] = steps
    p = os.path.join(os.path.dirname(__file__), 'calls.json')
    BOOT['calls'] = json.load(open(p)) if os.path.exists(p) else {}
    p = os.path.join(os.path.dirname(__file__), 'funcs.json')
    BOOT['funcs'] = json.load(open(p)) if os.path.exists(p) else {}
    # executable lines inside functions of pymeeus (denominator of the pre-emption-line measure)
    lines = set()

    def walk(code, mn):
        for _, _, ln in code.co_lines():
            if ln is not None:
                lines.add((mn, ln))
        for c in code.co_consts:
            if hasattr(c, 'co_lines'):
                walk(c, mn)
    for mn, m in mods.items():
        try:
            top = compile(open(m.__file__).read(), m.__file__, 'exec')
        except Exception:
            continue
        for c in top.co_consts:
            if hasattr(c, 'co_lines'):
                walk(c, mn)
    BOOT['fn_lines'] = len(lines)
    return BOOT


# ---------------------------------------------------------------- cloning
class _Pickler(pickle.Pickler):
    def persistent_id(self, obj):
        return BOOT['tables'].get(id(obj))


class _Unpickler(pickle.Unpickler):
    def persistent_load(self, pid):
        from . import ops
        return ops.resolve(pid)


def clone_dumps(x):
    f = io.BytesIO()
    _Pickler(f, 4).dump(x)
    return f.getvalue()


def clone_loads(b):
    return _Unpickler(io.BytesIO(b)).load()


# ---------------------------------------------------------------- forking
class HarnessError(Exception):
    pass


def fork_call(fn, args, timeout):
    """Run fn(*args) in a fork; return its (picklable) result."""
    r, w = os.pipe()
    pid = os.fork()
    if pid == 0:
        code = 0
        try:
            os.close(r)
            try:
                out = ('ok', fn(*args))
            except BaseException:
                import traceback
                out = ('err', traceback.format_exc())
            data = pickle.dumps(out, 4)
            with os.fdopen(w, 'wb') as f:
                f.write(data)
        except BaseException:
            code = 3
        finally:
            os._exit(code)
    os.close(w)
    chunks = []
    deadline = _perf() + timeout
    try:
        while True:
            left = deadline - _perf()
            if left <= 0:
                os.kill(pid, signal.SIGKILL)
                os.waitpid(pid, 0)
                raise HarnessError('timeout after %.0fs in %s' % (timeout, fn.__name__))
            rl, _, _ = select.select([r], [], [], min(left, 1.0))
            if rl:
                b = os.read(r, 1 << 20)
                if not b:
                    break
                chunks.append(b)
    finally:
        os.close(r)
    os.waitpid(pid, 0)
    data = b''.join(chunks)
    if not data:
        raise HarnessError('child of %s died without output' % fn.__name__)
    st, val = pickle.loads(data)
    if st != 'ok':
        raise HarnessError('child of %s failed:\n%s' % (fn.__name__, val))
    return val


# ---------------------------------------------------------------- pass S
def exec_S(source):
    from .engine import Sim
    from . import engine as _engine
    from . import pool as _pool
    b = BOOT
    cfg = source.cfg
    clock.set_zone(clock.zone_name(cfg['zone_min']))
    C = clock.CLOCK
    C.now = cfg['start']
    C.frozen = False
    crossings = {'minute': 0, 'hour': 0, 'day': 0}
    off = cfg['zone_min'] * 60

    def on_read(kind, before, after):
        for nm, per in (('minute', 60), ('hour', 3600), ('day', 86400)):
            if int(before // per) != int(after // per) or int((before + off) // per) != int((after + off) // per):
                crossings[nm] += 1
    C.on_read = on_read
    sim = Sim(source, b['import_digest'], b['import_names'])
    # engine.begin uses pickle.dumps for clones: route through the table-aware pickler
    _engine.CLONE = clone_dumps
    t0 = C.now
    if cfg['engine'] == 'T':
        sim.run_threads()
    else:
        sim.run_sequential()
    plan = {'version': 1, 'seed': source.seed, 'cfg': dict(cfg)}
    if cfg['engine'] == 'T':
        plan['tasks'] = sim.plan_tasks if source.mode == 'gen' else source.plan['tasks']
        plan['first'] = sim.first
        plan['cfg']['fin_points'] = dict((str(k), v) for k, v in sim.fin_points.items())
    else:
        plan['ops'] = sim.plan_ops if source.mode == 'gen' else source.plan['ops']
    h = hashlib.blake2b(digest_size=16)
    h.update(repr(sim.events).encode())
    for k, v in crossings.items():
        sim.counters['clock_cross.' + k] = v
    for k, v in C.counts.items():
        sim.counters['clock.' + k] = v
    sim.counters['clock_reads'] = C.reads
    local_day = int((cfg['start'] + off) // 86400)
    if local_day != int(cfg['start'] // 86400):
        sim.counters['probe.local_date_ne_utc_date'] = 1
    return {
        'plan': plan,
        'violations': sim.violations,
        'records': sim.records,
        'clones': sim.clones,
        'op_recipe': sim.op_recipe,
        'counters': sim.counters,
        'digest': h.hexdigest(),
        'events': sim.events if os.environ.get('VERIF_KEEP_EVENTS') else None,
        'steps': sim.total_steps,
        'sim_seconds': C.travel,
        'sched_keys': sorted(sim.sched_keys),
        'point_lines': sorted(sim.point_lines),
        'alias_names': dict(sim.alias_names),
        'funcs_by_name': dict((k, sorted(v)) for k, v in sim.funcs_by_name.items()),
        'nontrivial': bool(sim.counters.get('fired.nest', 0) + sim.counters.get('fired.cancel', 0) +
                           sim.counters.get('switches', 0) + sum(C.counts.get(k, 0) for k in ('straddle', 'step', 'jump', 'stall'))),
    }


class _CloneShim(object):
    @staticmethod
    def dumps(x, proto=4):
        return clone_dumps(x)


# ---------------------------------------------------------------- solo reference
TWIN_KINDS = ('Angle', 'Epoch', 'Interpolation', 'CurveFitting', 'Earth', 'Ellipsoid')


def twin_capability():
    """Which classes have a repr that really recreates the object, bit for bit?  Checked once per solo process on
    awkward values (1/3, 0.1 + 0.2, ...), because O2.twin is only sound for such classes: a repr that rounds or
    abbreviates (whether today or after some change to the library that has nothing to do with C20) would make a
    'twin' that merely prints like the original, and the oracle must then stay silent rather than blame the calls."""
    from . import ops
    ns = dict(ops.CLASSES)
    ok = set()
    third, odd = 1.0 / 3.0, 0.1 + 0.2

    def same(a, b):
        return type(a) is type(b) and (a.hex() == b.hex() if isinstance(a, float) else a == b)
    try:
        A = ns['Angle']
        good = True
        for v in (third, -odd, 359.99999999999994, 1e-12):
            a = A(v)
            t = eval(repr(a), dict(ns))
            good = good and same(float(a), float(t))
        if good:
            ok.add('Angle')
    except Exception:
        pass
    try:
        E = ns['Epoch']
        good = True
        for v in (2451545.0 + third, 1721057.5 + odd, 2299160.4999999995):
            e = E(v)
            t = eval(repr(e), dict(ns))
            good = good and abs(t.jde() - e.jde()) < 1e-6     # (re-normalisation in the last bit is handled per object)
        if good:
            ok.add('Epoch')
    except Exception:
        pass
    try:
        I = ns['Interpolation']
        i = I([third, 1.0 + odd, 2.5, 4.0 - third], [odd, -third, 7.0 * third, 1e-3 + odd])
        t = eval(repr(i), dict(ns))
        if all(same(i(x), t(x)) and same(i.derivative(x), t.derivative(x)) for x in (0.5, 1.7, 3.3)):
            ok.add('Interpolation')
    except Exception:
        pass
    try:
        C = ns['CurveFitting']
        c = C([third, 1.0 + odd, 2.5, 4.0 - third, 5.1], [odd, -third, 7.0 * third, 1e-3 + odd, 2.2])
        t = eval(repr(c), dict(ns))
        if all(same(x, y) for x, y in zip(c.linear_fitting() + c.quadratic_fitting(), t.linear_fitting() + t.quadratic_fitting())):
            ok.add('CurveFitting')
    except Exception:
        pass
    try:
        L = ns['Ellipsoid']
        el = L(6378137.0 + third, 1.0 / 298.257223563, 7.292115e-05 * (1 + 1e-9))
        t = eval(repr(el), dict(ns))
        if same(el.b(), t.b()) and same(el.e(), t.e()):
            ok.add('Ellipsoid')
        Ea = ns['Earth']
        ea = Ea(el)
        t2 = eval(repr(ea), dict(ns))
        if same(ea.rho_sinphi(41.3, 120.0), t2.rho_sinphi(41.3, 120.0)) and same(ea.rp(41.3), t2.rp(41.3)) and \
                same(ea.linear_velocity(41.3), t2.linear_velocity(41.3)):
            ok.add('Earth')
    except Exception:
        pass
    return ok


_TWIN_OK = None


def _twin(o, ns):
    """An object rebuilt from o's documented repr ("a valid expression that could be
    used to recreate the object") plus its public tolerance; None unless the twin is
    equal to o under every public observer the snapshots use."""
    global _TWIN_OK
    from .snap import snap
    from .pool import kind_of
    if _TWIN_OK is None:
        _TWIN_OK = twin_capability()
    k = kind_of(o)
    if k not in TWIN_KINDS or k not in _TWIN_OK:
        return None
    try:
        t = eval(repr(o), dict(ns))
        if k in ('Angle', 'Interpolation'):
            t.set_tolerance(o.get_tolerance())
        if type(t) is type(o) and snap(t) == snap(o):
            return t
    except Exception:
        return None
    return None


def _call(e, recv, args, kwargs):
    from . import ops
    from .snap import snap
    try:
        res = ops.invoke(e.kind, e.target, recv, args, kwargs)
        o = ('ok', snap(res))
    except Exception as ex:
        o = ('exc', snap(ex))
    post = snap(recv) if e.effect.startswith('mutator') else None
    return (o[0], o[1], post)


def exec_solo(jobs, cfg, order_seed):
    """jobs: list of (op_id, name, clones).  Each call runs alone on clones, clock
    frozen at another instant, same zone.  Returns {op_id: (outcome, res, recv_post, twin)}
    where twin is the same triple obtained with every top-level Angle/Epoch/Interpolation/
    CurveFitting/Earth/Ellipsoid argument replaced by an observationally equal object
    rebuilt from its repr (None when no argument could be twinned)."""
    from . import ops
    from .catalogue import ENTRIES
    clock.set_zone(clock.zone_name(cfg['zone_min']))
    C = clock.CLOCK
    C.now = cfg['solo_time']
    C.frozen = True
    ns = dict(ops.CLASSES)
    idx = list(range(len(jobs)))
    random.Random(order_seed).shuffle(idx)
    out = {}
    for i in idx:
        op_id, name, blob = jobs[i][:3]
        recipe = jobs[i][3] if len(jobs[i]) > 3 else None
        e = ENTRIES[name]
        recv, args, kwargs = clone_loads(blob)
        base = _call(e, recv, args, kwargs)
        twin = None
        if recipe and not os.environ.get('VERIF_NO_TWIN'):
            # history twin: the receiver is rebuilt by replaying its own constructor and documented mutators
            try:
                e0 = ENTRIES[recipe[0][0]]
                r0, a0, k0 = clone_loads(recipe[0][1])
                obj = ops.invoke(e0.kind, e0.target, r0, a0, k0)
                for nm, bl in recipe[1:]:
                    e1 = ENTRIES[nm]
                    _, a1, k1 = clone_loads(bl)
                    ops.invoke(e1.kind, e1.target, obj, a1, k1)
                _, a2, k2 = clone_loads(blob)
                k2 = {k: k2[k] for k in reversed(list(k2))}       # equal keywords, spelled in the opposite order
                twin = _call(e, obj, a2, k2)
            except Exception:
                twin = None
            out[op_id] = (base[0], base[1], base[2], twin)
            continue
        if not os.environ.get('VERIF_NO_TWIN'):
            recv, args, kwargs = clone_loads(blob)
            n = 0
            memo = {}

            def tw(o):
                if id(o) in memo:
                    return memo[id(o)]
                t = _twin(o, ns)
                memo[id(o)] = o if t is None else t
                return memo[id(o)]
            r2 = tw(recv) if recv is not None else None
            a2 = [tw(a) for a in args]
            k2 = {k: tw(kwargs[k]) for k in reversed(list(kwargs))}      # equal keywords, spelled in the opposite order
            n = sum(1 for x, y in zip([recv] + list(args) + [kwargs[k] for k in k2],
                                       [r2] + a2 + list(k2.values())) if x is not y)
            if n or len(k2) > 1:
                twin = _call(e, r2, a2, k2)
        out[op_id] = (base[0], base[1], base[2], twin)
    return out


def compare(sres, solo):
    """O2: every completed call equals its solo twin bit for bit."""
    v = []
    from .snap import is_finite_tree, is_busy
    nonfinite = 0
    for rec in sres['records']:
        if rec['outcome'] not in ('ok', 'exc'):
            continue
        if is_busy(rec['res']) or is_busy(rec['recv_post']):
            # snapshot taken while a repr of the same lists was in progress on the thread: unusable
            sres['counters']['snapshots_unusable_repr_in_progress'] = \
                sres['counters'].get('snapshots_unusable_repr_in_progress', 0) + 1
            continue
        s = solo.get(rec['id'])
        if s is None:
            continue
        if s[0] == 'ok' and not is_finite_tree(s[1]):
            nonfinite += 1
        if (rec['outcome'], rec['res']) != (s[0], s[1]):
            v.append({'oracle': 'O2.result', 'op': rec['id'], 'name': rec['name'],
                      'detail': {'sim': (rec['outcome'], rec['res']), 'solo': (s[0], s[1]), 'depth': rec['depth']}})
        elif rec['recv_post'] != s[2]:
            v.append({'oracle': 'O2.recv', 'op': rec['id'], 'name': rec['name'],
                      'detail': {'sim': rec['recv_post'], 'solo': s[2]}})
        elif s[3] is not None and s[3] != (s[0], s[1], s[2]):
            v.append({'oracle': 'O2.twin', 'op': rec['id'], 'name': rec['name'],
                      'detail': {'on_clones': (s[0], s[1], s[2]), 'on_repr_twins': s[3]}})
    return v, nonfinite


SOLO_GROUPS = 8


def run_plan(source, timeout=300.0):
    """Execute one run (pass S + solo) from a decision source; returns result dict
    with 'violations' covering all oracles."""
    boot()
    t0 = _perf()
    sres = fork_call(exec_S, (source,), timeout)
    jobs = [(r['id'], r['name'], sres['clones'][r['id']], sres['op_recipe'].get(r['id'])) for r in sres['records']
            if r['outcome'] in ('ok', 'exc') and r['id'] in sres['clones']]
    order_seed = source.seed ^ 0x5DEECE66D
    mode = os.environ.get('VERIF_SOLO', 'groups')
    if mode == 'batch':
        # (diagnostic) all reference calls of the run in ONE pristine fork, in seeded shuffled order
        solo = fork_call(exec_solo, (jobs, source.cfg, order_seed), timeout)
    elif mode == 'alone':
        # (diagnostic, 3x slower) every reference call alone in its own pristine fork
        solo = {}
        for j in jobs:
            solo.update(fork_call(exec_solo, ([j], source.cfg, 0), timeout))
    else:
        # the reference calls are dealt round-robin, in the order the run issued them, over up to SOLO_GROUPS
        # pristine forks (shuffled inside each): calls the run made one after the other - a repeat, a neighbour,
        # the steps of a scan - get their reference results in DIFFERENT processes, so state that one of them
        # leaves behind (a memo, a patched table) cannot make the reference agree with the simulated history
        g = max(1, min(SOLO_GROUPS, len(jobs) // 3))
        solo = {}
        for k in range(g):
            part = jobs[k::g]
            if part:
                solo.update(fork_call(exec_solo, (part, source.cfg, order_seed + k), timeout))
    v2, nonfinite = compare(sres, solo)
    for v in v2:
        # confirm in another single-call pristine fork
        one = [j for j in jobs if j[0] == v['op']]
        alone = fork_call(exec_solo, (one, source.cfg, 0), timeout)
        a = alone.get(v['op'])
        s = solo.get(v['op'])
        v['detail']['solo_alone_agrees_with_batch'] = (a == s)
        if v['oracle'] == 'O2.twin' and a is not None and (a[3] is None or a[3] == a[:3]):
            v['oracle'] = 'O2.twin-unconfirmed'
    sres['violations'] = list(sres['violations']) + v2
    sres['counters']['solo_calls'] = len(jobs)
    sres['counters']['solo_nonfinite'] = nonfinite
    sres['counters']['solo_twin_calls'] = sum(1 for x in solo.values() if x[3] is not None)
    sres['counters']['solo_rejects'] = sum(1 for x in solo.values() if x[0] == 'exc')
    names = dict((j[0], j[1]) for j in jobs)
    # soft findings: a solo call rejected a generated (conservatively in-domain) input with an
    # allowed exception class.  One such event proves nothing (the generator may over-reach); the
    # batch promotes it to O5.never only when a callable rejected EVERY input of a whole batch.
    sres['soft'] = [{'oracle': 'O5.never', 'op': k, 'name': names[k], 'detail': {'class': x[1][1], 'msg': x[1][2]}}
                    for k, x in sorted(solo.items()) if x[0] == 'exc']
    calls = {}
    for j in jobs:
        calls[j[1]] = calls.get(j[1], 0) + 1
    sres['calls_by_name'] = calls
    sres['rejects'] = [(names[k], x[1][1], x[1][2]) for k, x in sorted(solo.items()) if x[0] == 'exc']
    sres['wall'] = _perf() - t0
    del sres['clones']
    del sres['op_recipe']
    return sres
