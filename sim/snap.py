"""Observable-value snapshots (public observers only) and the module digest.

A snapshot is a nested tuple of primitives; two snapshots are equal iff the
observable state is bit-for-bit equal.  Private attribute names of pymeeus
classes are never touched here, so refactorings that rename or add private
state (caches included) are invisible to the oracles.
"""
import hashlib
import math
import pickle
import re
import types
import datetime as _dt

_PROBE_FRACS = (0.25, 0.5, 0.8125)

CLS = {}  # filled by bind(): name -> class


def bind(classes):
    CLS.update(classes)


def fbits(x):
    return float(x).hex()


def snap(o, depth=0):
    """Value snapshot of o through public observers."""
    if o is None or isinstance(o, (bool, str)):
        return o
    if isinstance(o, int):
        return ('i', o)
    if isinstance(o, float):
        return ('f', o.hex())
    if isinstance(o, complex):
        return ('c', o.real.hex(), o.imag.hex())
    t = type(o)
    name = t.__name__
    if t is CLS.get('Angle'):
        return ('Angle', _guard(lambda: fbits(float(o))), _guard(lambda: _num(o.get_tolerance())))
    if t is CLS.get('Epoch'):
        return ('Epoch', _guard(lambda: fbits(o.jde())))
    if isinstance(o, (list, tuple)):
        if depth > 6:
            return (name, '...')
        return (name,) + tuple(snap(x, depth + 1) for x in o)
    if isinstance(o, dict):
        return ('dict',) + tuple(sorted((repr(k), snap(v, depth + 1)) for k, v in o.items()))
    if t is CLS.get('Interpolation'):
        return _snap_interp(o)
    if t is CLS.get('CurveFitting'):
        return ('CurveFitting', _guard(lambda: _repr(o)), _guard(lambda: len(o)))
    if isinstance(o, (_dt.date, _dt.datetime)):
        return (name, o.isoformat())
    if isinstance(o, BaseException):
        return ('exc', type(o).__name__, str(o))
    if isinstance(o, (types.FunctionType, types.BuiltinFunctionType)):
        return ('fn', getattr(o, '__name__', '?'))
    if t.__repr__ is object.__repr__:
        return (name,)
    # Ellipsoid, Earth, anything else with a public string form
    return (name, _guard(lambda: repr(o)), _guard(lambda: str(o)))


def _num(x):
    if isinstance(x, float):
        return x.hex()
    return x


def _guard(f):
    try:
        return f()
    except Exception as e:  # an observer that raises is itself observable
        return ('raises', type(e).__name__, str(e))


BUSY = '<repr-in-progress>'


def _repr(o):
    # CPython's recursive-repr guard prints '[...]' for a list whose repr is
    # already running on this thread (the pre-empted call may be inside it):
    # such a snapshot says nothing about the object, mark it unusable.
    r = repr(o)
    if '[...]' in r or '(...)' in r:
        return BUSY
    return r


def is_busy(s):
    if s == BUSY:
        return True
    if isinstance(s, str) and ('[...]' in s or '(...)' in s):
        # a str()/repr() RESULT computed by a nested call on the thread whose pre-empted call is inside
        # the repr of the same list (engine N runs the intruder on the pre-empted call's thread; on a
        # thread of its own it would have seen the full text): artefact of the simulation, unusable
        return True
    if isinstance(s, tuple):
        return any(is_busy(x) for x in s)
    return False


def _snap_interp(o):
    parts = ['Interpolation', _guard(lambda: _repr(o)), _guard(lambda: len(o)),
             _guard(lambda: _num(o.get_tolerance()))]
    return tuple(parts)


def is_finite_tree(s):
    """True when every float in a snapshot is finite."""
    if isinstance(s, tuple):
        if len(s) == 2 and s[0] == 'f':
            return math.isfinite(float.fromhex(s[1]))
        return all(is_finite_tree(x) for x in s)
    return True


# ---------------------------------------------------------------- module digest
_CONST_RE = re.compile(r'^[A-Z][A-Z0-9_]*$')
MODULES = ['base', 'Angle', 'Epoch', 'Interpolation', 'CurveFitting', 'Coordinates', 'Earth', 'Sun',
           'Moon', 'Minor', 'Pluto', 'Mercury', 'Venus', 'Mars', 'Jupiter', 'Saturn', 'Uranus',
           'Neptune', 'JupiterMoons']


def _plain(v, d=0):
    """True for nested list/tuple/number/str data that pickle can serialise at C speed (decided on
    the leading elements; whatever sits deeper is still pickled, deterministically, by value)."""
    if isinstance(v, (float, int, str, bool, type(None))):
        return True
    if isinstance(v, (list, tuple)):
        if d > 1:
            return True
        return all(_plain(x, d + 1) for x in v[:3])
    return False


def _norm(v):
    """Canonical picklable form of a module-level constant."""
    if isinstance(v, dict):
        return ('dict', tuple(sorted((repr(k), _norm(x)) for k, x in v.items())))
    if isinstance(v, (list, tuple)):
        if _plain(v):
            return v          # pickled as is (floats as 8 IEEE bytes, ints as ints): bit-exact and fast
        return (type(v).__name__, tuple(_norm(x) for x in v))
    if isinstance(v, float):
        return v.hex()
    if isinstance(v, (int, str, bool, type(None))):
        return v
    return snap(v)


def _ambient():
    """Interpreter-level settings a library call has no business changing (they are shared by every later call of
    the process, like a module table): the arithmetic context of `decimal` as seen by the calling thread, and the
    recursion limit.  (Context flags are left out: any Decimal operation sets them.)"""
    import decimal
    import sys
    c = decimal.getcontext()
    d = decimal.DefaultContext
    return {
        'interpreter.decimal_context': (c.prec, c.rounding, c.Emin, c.Emax, c.capitals, c.clamp,
                                        sorted(str(t) for t, on in c.traps.items() if on)),
        'interpreter.decimal_default_context': (d.prec, d.rounding, d.Emin, d.Emax, d.capitals, d.clamp),
        'interpreter.recursion_limit': sys.getrecursionlimit(),
    }


def module_digest(mods, per_name=False):
    """blake2b digest of every public upper-case data binding of every module.
    mods: dict name -> module object."""
    out = {}
    for mn in sorted(mods):
        m = mods[mn]
        for k in sorted(vars(m)):
            v = vars(m)[k]
            if not _CONST_RE.match(k):
                continue
            if isinstance(v, (type, types.ModuleType, types.FunctionType)):
                continue
            try:
                b = pickle.dumps((type(v).__name__, _norm(v)), 4)
            except Exception:
                # a constant that cannot be pickled (a lambda, an open resource): identify it by type only,
                # never let the digest itself fail
                b = ('unpicklable:' + type(v).__name__).encode()
            out[mn + '.' + k] = hashlib.blake2b(b, digest_size=8).hexdigest()
    for k, v in _ambient().items():
        out[k] = hashlib.blake2b(pickle.dumps(v, 4), digest_size=8).hexdigest()
    if per_name:
        return out
    h = hashlib.blake2b(digest_size=16)
    for k in sorted(out):
        h.update(k.encode())
        h.update(out[k].encode())
    return h.hexdigest()


def digest_obj(x):
    return hashlib.blake2b(pickle.dumps(x, 4), digest_size=8).hexdigest()
