"""Delta debugging of a failing plan while the same violation class
(oracle id + blamed callable) keeps failing."""
import copy
from time import perf_counter as _perf

from . import runner
from .source import ReplaySource


def vkey(v):
    return (v['oracle'], v['name'])


def fails(plan, key, timeout=120.0):
    try:
        r = runner.run_plan(ReplaySource(copy.deepcopy(plan)), timeout)
    except runner.HarnessError:
        return None
    for v in list(r['violations']) + (list(r.get('soft', ())) if key[0] == 'O5.never' else []):
        if vkey(v) == key:
            return v
    return None


def _ops_of(plan):
    if 'ops' in plan:
        return [plan['ops']]
    return plan['tasks']


def _ddmin(lst, test, budget):
    """Classic ddmin on a list; test(sub) -> bool (still fails)."""
    n = 2
    while len(lst) >= 2 and budget[0] > 0:
        chunk = max(1, len(lst) // n)
        reduced = False
        for i in range(0, len(lst), chunk):
            cand = lst[:i] + lst[i + chunk:]
            if not cand:
                continue
            budget[0] -= 1
            if test(cand):
                lst = cand
                n = max(n - 1, 2)
                reduced = True
                break
            if budget[0] <= 0:
                break
        if not reduced:
            if chunk == 1:
                break
            n = min(len(lst), n * 2)
    return lst


class _Budget(list):
    """[trials left]; reads as exhausted once the wall-clock deadline (perf_counter seconds) has passed."""
    deadline = None

    def __getitem__(self, i):
        if self.deadline is not None and _perf() > self.deadline:
            return 0
        return list.__getitem__(self, i)


def minimise(plan, key, max_trials=120, deadline=None):
    plan = copy.deepcopy(plan)
    budget = _Budget([max_trials])
    budget.deadline = deadline
    v = fails(plan, key)
    if v is None:
        return plan, None, 0
    # 1. cut everything after the violating operation (when it names one)
    if v.get('op') is not None and 'ops' in plan:
        cut = [o for o in plan['ops'] if o['id'] <= v['op']]
        if len(cut) < len(plan['ops']):
            p2 = dict(plan, ops=cut)
            budget[0] -= 1
            if fails(p2, key):
                plan = p2
    # 1b. does it need the interleaving at all?  try nested calls as plain calls after their parent
    if 'ops' in plan and budget[0] > 0:
        flat = []
        had = False
        for o in plan['ops']:
            o2 = copy.deepcopy(o)
            nested = [p['op'] for p in o2.get('points', []) + (o2.get('cpoints') or []) if p.get('op')]
            if nested:
                had = True
                o2['points'] = [p for p in o2['points'] if p['kind'] != 'nest']
                o2['cpoints'] = [p for p in (o2.get('cpoints') or []) if p['kind'] != 'nest']
            flat.append(o2)
            flat.extend(nested)
        if had:
            p2 = dict(plan, ops=flat)
            budget[0] -= 1
            if fails(p2, key):
                plan = p2
                plan['cfg'] = dict(plan['cfg'], flattened=True)
    # 2. drop operations
    nlists = 1 if 'ops' in plan else len(plan['tasks'])

    def setl(p, li, sub):
        if 'ops' in p:
            p['ops'] = sub
        else:
            p['tasks'][li] = sub
    for li in range(nlists):
        def test(sub, li=li):
            p2 = copy.deepcopy(plan)
            setl(p2, li, sub)
            return fails(p2, key) is not None
        new = _ddmin(list(_ops_of(plan)[li]), test, budget)
        setl(plan, li, new)
    # 3. drop scheduling points / faults, then clock scripts
    for lst in _ops_of(plan):
        for op in lst:
            pts = op.get('points') or []
            i = 0
            while i < len(pts) and budget[0] > 0:
                saved = list(pts)
                del pts[i]
                op['points'] = pts
                budget[0] -= 1
                if fails(plan, key) is None:
                    pts[:] = saved
                    i += 1
            cps = op.get('cpoints') or []
            i = 0
            while i < len(cps) and budget[0] > 0:
                saved = list(cps)
                del cps[i]
                op['cpoints'] = cps
                budget[0] -= 1
                if fails(plan, key) is None:
                    cps[:] = saved
                    i += 1
            pts = pts + cps
            # nested op's own points
            for p in pts:
                if p.get('op') and (p['op'].get('points') or p['op'].get('cpoints')) and budget[0] > 0:
                    saved = (p['op']['points'], p['op'].get('cpoints'))
                    p['op']['points'] = []
                    p['op']['cpoints'] = []
                    budget[0] -= 1
                    if fails(plan, key) is None:
                        p['op']['points'], p['op']['cpoints'] = saved
            if op.get('clock') and budget[0] > 0:
                saved = op['clock']
                op['clock'] = []
                budget[0] -= 1
                if fails(plan, key) is None:
                    op['clock'] = saved
                    # try dropping single entries
                    j = 0
                    while j < len(op['clock']) and budget[0] > 0 and len(op['clock']) > 1:
                        s2 = list(op['clock'])
                        del op['clock'][j]
                        budget[0] -= 1
                        if fails(plan, key) is None:
                            op['clock'] = s2
                            j += 1
    # 4. simpler configuration
    for k, val in (('zone_min', 0),):
        if plan['cfg'].get(k) != val and budget[0] > 0:
            saved = plan['cfg'][k]
            plan['cfg'][k] = val
            budget[0] -= 1
            if fails(plan, key) is None:
                plan['cfg'][k] = saved
    v = fails(plan, key)
    return plan, v, max_trials - list.__getitem__(budget, 0)
