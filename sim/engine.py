"""Executor: runs simulated caller tasks against the real pymeeus under a
line-level scheduler, injects faults, and evaluates the in-run oracles
(O1 frame conditions, O4 step budget).  O2 (solo equality) is evaluated by the
parent over the records produced here."""
import os
import pickle
import sys
import threading

from . import ops
from .catalogue import ENTRIES
from .clock import CLOCK
from .pool import Pool, Builder, MissingHandle, reachable, HSTRIDE, kind_of
from .snap import snap, digest_obj, module_digest

BUDGET = 5000000
NOCALL = 1 << 60


def CLONE(x):
    return pickle.dumps(x, 4)


def _has_list(v, d=0):
    if isinstance(v, list):
        return True
    if isinstance(v, tuple) and d < 4:
        return any(_has_list(x, d + 1) for x in v)
    return False


class SimCancelled(BaseException):
    pass


class BudgetExceeded(BaseException):
    pass


# callables documented to pass an argument object through ("returns Epoch object corresponding to the input
# date": an Epoch given to check_input_date is returned as it is)
PASS_THROUGH = ('Epoch.check_input_date',)

CANCEL_EXC = {'SimCancelled': SimCancelled, 'KeyboardInterrupt': KeyboardInterrupt, 'MemoryError': MemoryError}
OK_EXC = ('TypeError', 'ValueError', 'ZeroDivisionError')


def _epoch_close(a, b):
    """Two Epoch snapshots whose JDE differ by less than 1e-8 day (about a millisecond)."""
    try:
        if a[0] != 'Epoch' or b[0] != 'Epoch':
            return False
        return abs(float.fromhex(a[1]) - float.fromhex(b[1])) < 1e-8
    except Exception:
        return False


class OpCtx(object):
    __slots__ = ('op', 'entry', 'recv', 'args', 'kwargs', 'reach', 'pre', 'clones', 'pidx', 'cancel_kind',
                 'depth', 'fired', 'recv_inf', 'steps', 'S', 'cidx', 'calls', 'self_assign')


class Sim(object):
    def __init__(self, source, import_digest, import_names=None):
        self.src = source
        self.cfg = source.cfg
        self.hs = self.cfg.get('hstride', 64)
        self.rs = self.cfg.get('rslots', 32)
        self.pool = Pool()
        self.import_digest = import_digest
        self.pm_prefix = os.path.dirname(ops.MODS['Angle'].__file__) + os.sep
        self.violations = []
        self.records = []      # per-op result records (for O2)
        self.clones = {}       # op id -> pickled (recv, args, kwargs)
        self.events = []       # event log (determinism digest)
        self.counters = {}
        self.plan_ops = []     # recorded plan (gen mode)
        self.plan_tasks = None
        self.cur = None
        self.S = [0, BUDGET, 0, NOCALL]   # [line steps, next step point, boundary events (entries into and returns
        #                                    from pymeeus functions), next boundary point]
        self.tracer = self._make_tracer(self.S, None)
        self.sched_keys = set()
        self.point_lines = set()
        self.alias_names = {}
        self.copy_pending = None
        self.stack = []           # engine N: contexts of the calls currently pre-empted, outermost first
        self.op_recipe = {}       # op id -> recipe of its receiver at call time
        self.func_log = None      # calibration only: pymeeus functions entered by the current op
        self.funcs_by_name = {}
        self.module_reported = False
        self.import_names = import_names or {}
        self.total_steps = 0
        self.t0_clock = None

    # ------------------------------------------------------------ bookkeeping
    def count(self, k, n=1):
        self.counters[k] = self.counters.get(k, 0) + n

    def violate(self, oracle, op, detail, blame=None):
        v = {'oracle': oracle, 'op': op['id'] if op else None, 'name': blame or (op['name'] if op else None),
             'detail': detail}
        self.violations.append(v)
        self.events.append(('VIOLATION', oracle, v['op'], v['name']))

    # ------------------------------------------------------------ tracing
    def _make_tracer(self, S, task):
        sim = self
        pm = self.pm_prefix

        def local(frame, event, arg):
            if event == 'line':
                S[0] += 1
                if S[0] >= S[1]:
                    sim.on_point(frame, S, task)
            elif event == 'return':
                # a boundary event: a pymeeus function is about to return; a boundary-indexed point fires at
                # the next line executed (normally the caller's next statement)
                S[2] += 1
                if S[2] >= S[3]:
                    S[1] = S[0] + 1
            return local

        def tracer(frame, event, arg):
            if frame.f_code.co_filename.startswith(pm):
                S[2] += 1
                if S[2] >= S[3]:
                    S[1] = S[0] + 1     # a call-indexed point: fire at the first line of this function
                if sim.func_log is not None:
                    sim.func_log.add(os.path.basename(frame.f_code.co_filename)[:-3] + '.' + frame.f_code.co_name)
                return local
            return None
        return tracer

    def _arm(self, ctx, S):
        pts = ctx.op.get('points') or []
        S[1] = pts[ctx.pidx]['step'] if ctx.pidx < len(pts) else BUDGET
        cps = ctx.op.get('cpoints') or []
        S[3] = cps[ctx.cidx]['call'] if ctx.cidx < len(cps) else NOCALL

    def inflight_tasks(self):
        """Tasks that have a call in flight on the nested-pre-emption stack (engine N)."""
        return [c.op['task'] for c in self.stack]

    def on_point(self, frame, S, task):
        ctx = self.cur if task is None else self.tcur[task]
        cps = ctx.op.get('cpoints') or []
        if ctx.cidx < len(cps) and S[2] >= S[3] and not ctx.cancel_kind:
            # boundary-indexed point (located by the k-th entry into / return from a pymeeus function)
            pt = cps[ctx.cidx]
            ctx.cidx += 1
            self._arm(ctx, S)
            tag = ('c', pt['call'])
        else:
            pts = ctx.op.get('points') or []
            if ctx.pidx >= len(pts) or S[0] < pts[ctx.pidx]['step']:
                if S[0] >= BUDGET:
                    raise BudgetExceeded()
                self._arm(ctx, S)
                return
            pt = pts[ctx.pidx]
            ctx.pidx += 1
            self._arm(ctx, S)
            tag = pt['step']
        kind = pt['kind']
        where = (frame.f_code.co_name, frame.f_lineno)
        ctx.fired.append((tag, kind))
        self.count('fired.' + kind)
        mod = os.path.basename(frame.f_code.co_filename)[:-3]
        self.count('preempt_in.' + mod)
        self.point_lines.add((mod, frame.f_lineno))
        if ctx.entry.effect == 'rebind' and kind in ('cancel', 'nest', 'yield'):
            self.count('probe.fault_inside_rebinding_operator')
        if kind == 'check':
            self.pool_check(ctx.op, 'at-check')
            self.module_check(ctx.op, 'mid-call')
        elif kind == 'cancel':
            self.pool_check(ctx.op, 'pre-cancel')
            ctx.cancel_kind = pt['exc']
            self.events.append(('cancel', ctx.op['id'], tag, pt['exc'], where))
            raise CANCEL_EXC[pt['exc']]('injected at step %d' % S[0])
        elif kind == 'nest':
            self.pool_check(ctx.op, 'pre-nest')
            b = self.src.nested(self, ctx.op, pt)
            if b is not None:
                if self.src.mode == 'gen':
                    pt['op'] = b
                self.events.append(('nest', ctx.op['id'], tag, b['id'], where))
                self.sched_keys.add((ctx.op['name'], where[0], where[1], b['name']))
                saved = (S[0], S[1], S[2], S[3], self.cur)
                self.stack.append(ctx)
                try:
                    self.run_op(b, len(self.stack))
                finally:
                    self.stack.pop()
                    S[0], S[1], S[2], S[3], self.cur = saved
                    sys.settrace(self.tracer)
                self.pool_check(ctx.op, 'post-nest')
        elif kind == 'yield':
            self.t_yield(task, ctx, pt, where)

    # ------------------------------------------------------------ oracles
    def pool_check(self, op, when):
        bad = self.pool.check_everything() if when == 'run-end' else self.pool.check_all()
        for inf, now in bad:
            self.violate('O1.pool', op, {'when': when, 'kind': inf.kind, 'model': inf.snap, 'now': now,
                                         'const': inf.const, 'born': inf.born}, blame='pool:' + inf.kind)
            inf.snap = now   # report once
        self.count('pool_checks')

    # ------------------------------------------------------------ one operation
    def begin(self, op, depth):
        name = op['name']
        entry = ENTRIES.get(name)
        if entry is None or not ops.available(entry.kind, entry.target):
            return None
        b = Builder(self.pool, op, None, self.hs, self.rs)
        try:
            recv = b.build(op['recv']) if op.get('recv') else None
            b.recv_obj = recv
            args = [b.build(x) for x in op['args']]
            kwargs = {k: b.build(v) for k, v in sorted(op['kwargs'].items())}
        except MissingHandle:
            return None
        for x in [op.get('recv')] + list(op['args']) + list(op['kwargs'].values()):
            if x and 'h' in x and x['h'] >= self.hs and x['h'] % self.hs < self.rs:
                self.count('probe.result_reused_as_argument')
                if x is op.get('recv') and entry.effect.startswith('mutator'):
                    self.count('probe.result_as_mutator_receiver')
        ctx = OpCtx()
        ctx.op, ctx.entry, ctx.recv, ctx.args, ctx.kwargs = op, entry, recv, args, kwargs
        ctx.depth, ctx.pidx, ctx.cancel_kind, ctx.fired, ctx.steps = depth, 0, None, [], 0
        ctx.cidx, ctx.calls = 0, 0
        eff = entry.effect
        ctx.recv_inf = None
        if eff.startswith('mutator'):
            inf = self.pool.infoof(recv)
            if inf is None or inf.frozen or inf.const or inf.rlocks or inf.xlock:
                return None
            ctx.recv_inf = inf
        values = [recv] + args + list(kwargs.values())
        ctx.reach = reachable(values)
        # the simulated callers never race with themselves: no call may read an object that an
        # in-flight documented mutator of another task is writing, and nobody assigns an object to itself
        for o in ctx.reach:
            inf = self.pool.infoof(o)
            if inf is not None and inf.xlock:
                return None
        ctx.self_assign = name.endswith('#self')
        if ctx.recv_inf is not None and any(a is recv for a in args + list(kwargs.values())) and not ctx.self_assign:
            # (x.set(x) proper is a catalogue entry of its own, `#self`, judged as an argument that must not change)
            return None
        rinf = self.pool.infoof(recv) if recv is not None else None
        if rinf is not None and rinf.recipe and not eff.startswith('mutator'):
            self.op_recipe[op['id']] = list(rinf.recipe)
        ctx.pre = [(o, snap(o)) for o in ctx.reach]
        try:
            ctx.clones = CLONE((recv, args, kwargs))
        except Exception:
            # arguments that cannot be cloned cannot be given to the solo twin: skip the call, count it
            self.count('op_unclonable')
            return None
        for o in ctx.reach:
            inf = self.pool.infoof(o)
            if inf is None:
                continue
            if inf is ctx.recv_inf:
                inf.xlock = True
            else:
                inf.rlocks += 1
        return ctx

    def run_op(self, op, depth, S=None, task=None):
        """Execute one op (depth 0 = top level, 1 = nested inside a trace callback)."""
        if S is None:
            S = self.S
        if op['name'] == '@alias':
            return self.do_alias(op)
        if op['name'] == '@edit_list':
            return self.do_edit_list(op)
        ctx = self.begin(op, depth)
        if ctx is None:
            self.count('op_skipped')
            self.events.append(('skip', op['id'], op['name']))
            self.records.append({'id': op['id'], 'name': op['name'], 'outcome': 'skip'})
            return
        CLOCK.set_script(op.get('clock'))
        reads0 = CLOCK.reads
        if self.cfg.get('trace_funcs'):
            self.func_log = self.funcs_by_name.setdefault(op['name'], set())
        ctx.S = S
        S[0] = 0
        S[2] = 0
        self._arm(ctx, S)
        if task is None:
            self.cur = ctx
        else:
            self.tcur[task] = ctx
        e = ctx.entry
        try:
            if depth == 0:
                sys.settrace(self.tracer if task is None else self.ttracer[task])
            try:
                if depth == 0:
                    res = ops.invoke(e.kind, e.target, ctx.recv, ctx.args, ctx.kwargs)
                else:
                    # we are inside a trace callback: enable tracing for the nested call only
                    res = sys.call_tracing(ops.invoke, (e.kind, e.target, ctx.recv, ctx.args, ctx.kwargs))
                outcome = ('ok', res)
            finally:
                if depth == 0:
                    sys.settrace(None)
        except BudgetExceeded:
            outcome = ('budget', None)
        except (SimCancelled, KeyboardInterrupt, MemoryError) as ex:
            if ctx.cancel_kind is not None:
                outcome = ('cancel', ctx.cancel_kind)
            else:
                outcome = ('exc', ex)
        except Exception as ex:
            outcome = ('exc', ex)
        ctx.steps = S[0]
        ctx.calls = S[2]
        self.total_steps += S[0]
        self.finish(ctx, outcome, CLOCK.reads - reads0)

    def do_alias(self, op):
        src = op['args'][0]['h']
        o = self.pool.handles.get(src)
        if o is None:
            self.records.append({'id': op['id'], 'name': '@alias', 'outcome': 'skip'})
            return
        self.pool.register(op['id'] * self.hs, o, op['task'], born=op['id'])
        self.count('alias')
        inf = self.pool.infoof(o)
        if inf is not None and inf.const:
            self.count('probe.alias_of_constant')
        self.events.append(('alias', op['id'], src))
        self.records.append({'id': op['id'], 'name': '@alias', 'outcome': 'alias'})

    def do_edit_list(self, op):
        """The CALLER edits a list it owns (one plain-number leaf), as any caller may: the library
        documents that it copies values out of sequences, so nothing else may change."""
        pool = self.pool
        lst = pool.handles.get(op['args'][0]['h'])
        inf = pool.infoof(lst)
        rec = {'id': op['id'], 'name': '@edit_list', 'outcome': 'skip'}
        ok = isinstance(lst, list) and inf is not None and inf.rlocks == 0 and not inf.xlock
        if ok:
            tgt = lst
            path = list(op['path'])
            try:
                for i in path[:-1]:
                    tgt = tgt[i]
                ok = isinstance(tgt, list) and isinstance(tgt[path[-1]], (int, float)) and \
                    not isinstance(tgt[path[-1]], bool)
            except Exception:
                ok = False
        if ok:
            tgt[path[-1]] = float.fromhex(op['value'])
            # legitimate caller-side write: refresh the model of the list and of every pooled
            # container that (transitively) holds it
            changed = {id(lst), id(tgt)}
            grew = True
            while grew:
                grew = False
                for i2 in pool.info.values():
                    if i2.kind in ('list', 'tuple') and id(i2.obj) not in changed and \
                            any(id(x) in changed for x in i2.obj):
                        changed.add(id(i2.obj))
                        grew = True
            for i2 in pool.info.values():
                if id(i2.obj) in changed:
                    i2.snap = snap(i2.obj)
            rec['outcome'] = 'edit'
            self.count('probe.caller_edited_own_list')
        self.events.append(('edit_list', op['id'], rec['outcome']))
        self.records.append(rec)

    def finish(self, ctx, outcome, reads):
        op, e = ctx.op, ctx.entry
        eff = e.effect
        pool = self.pool
        for o in ctx.reach:
            inf = pool.infoof(o)
            if inf is None:
                continue
            if inf is ctx.recv_inf:
                inf.xlock = False
            elif inf.rlocks > 0:
                inf.rlocks -= 1
        kind, val = outcome
        rec = {'id': op['id'], 'name': op['name'], 'task': op['task'], 'outcome': kind, 'steps': ctx.steps,
               'calls': ctx.calls,
               'depth': ctx.depth, 'reads': reads, 'res': None, 'recv_post': None, 'effect': eff}
        if kind == 'budget':
            self.violate('O4.budget', op, {'steps': ctx.steps})
        # ---- O1 on arguments
        inplace_ok = None
        for o, s in ctx.pre:
            if ctx.recv_inf is not None and o is ctx.recv:
                if not (ctx.self_assign and kind == 'ok'):
                    continue
                # x.set(x): the receiver is given the value of the argument, which is its own; as an argument
                # it must not be changed by the call
            now = snap(o)
            if now == s:
                continue
            if ctx.self_assign and o is ctx.recv and _epoch_close(s, now):
                # e.set(e) goes through the calendar date like every Epoch copy and may re-normalise the last
                # bits of the JDE (as Epoch(e) does): judged to the precision the library's own copy has
                continue
            if eff == 'rebind' and o is ctx.recv and kind == 'ok' and val is ctx.recv:
                hid = op['recv']['h']
                inf = pool.infoof(o)
                if pool.alias_count(o, hid) == 0 and not (inf is not None and inf.const):
                    # in-place update nobody else can observe: legal Python semantics for +=
                    inplace_ok = now
                    continue
            which = ('arg=recv' if ctx.self_assign else 'recv') if o is ctx.recv else 'arg'
            self.violate('O1.arg', op, {'which': which, 'kind': kind_of(o), 'before': s, 'after': now,
                                        'outcome': kind})
            inf = pool.infoof(o)
            if inf is not None:
                inf.snap = now
        if inplace_ok is not None:
            inf = pool.infoof(ctx.recv)
            if inf is not None:
                inf.snap = inplace_ok
        # ---- model update for documented mutators
        if ctx.recv_inf is not None:
            ctx.recv_inf.snap = snap(ctx.recv)
            rec['recv_post'] = ctx.recv_inf.snap
            self.count('mutator_applied')
            if self.pool.is_copyrel(ctx.recv):
                self.count('probe.mutator_on_copy_or_its_source')
            if ctx.recv_inf.born != op['id'] and pool.alias_count(ctx.recv) > 1:
                self.count('probe.mutator_on_aliased')
        if kind == 'ok':
            rec['res'] = snap(val)
            if eff in ('capture', 'mutator_capture'):
                is_copy = (len(ctx.args) == 1 and not ctx.kwargs and type(ctx.args[0]) is type(
                    ctx.recv if ctx.recv is not None else val))
                if is_copy:
                    self.count('probe.copy_made')
                    self.copy_pending = (ctx.args[0], ctx.recv if ctx.recv is not None else val)
                else:
                    for o in ctx.reach:
                        if o is ctx.recv:
                            continue
                        inf = pool.infoof(o)
                        if inf is not None:
                            inf.frozen = True
            self.register_result(ctx, val)
            if self.copy_pending is not None:
                for o in self.copy_pending:
                    ci = pool.infoof(o)
                    if ci is not None:
                        ci.copyrel = True
                self.copy_pending = None
        elif kind == 'exc':
            rec['res'] = snap(val)
            cls = type(val).__name__
            self.count('exc.' + cls)
            if cls not in OK_EXC:
                self.violate('O5.exc', op, {'class': cls, 'msg': str(val)})
        elif kind == 'cancel':
            self.count('cancelled')
            self.module_check(op, 'after-cancel')
        if ctx.recv_inf is not None and kind != 'ok':
            ctx.recv_inf.recipe = None
        if ctx.recv_inf is not None and kind in ('cancel', 'budget'):
            # a documented mutator was interrupted: its receiver may be half-set, which C20 does
            # not forbid, and no caller would go on using it -> the object leaves the pool
            for h in [h for h, o in pool.handles.items() if o is ctx.recv]:
                del pool.handles[h]
                pool.owner.pop(h, None)
            self.count('probe.receiver_dropped_after_cancelled_mutator')
        self.clones[op['id']] = ctx.clones
        if getattr(self, 'tcur', None) is not None and op['task'] < len(self.tcur) and self.tcur[op['task']] is ctx:
            self.tcur[op['task']] = None
        self.records.append(rec)
        self.events.append(('op', op['id'], op['name'], kind, digest_obj(rec['res']), digest_obj(rec['recv_post']),
                            ctx.steps, tuple(ctx.fired), reads))
        self.count('ops')
        self.count('ops.' + e.group)
        if ctx.depth:
            self.count('ops_nested')
        dropped = pool.age(op['id'], self.hs)
        if dropped:
            self.count('handles_aged_out', dropped)
        pool.gc()

    def register_result(self, ctx, val):
        op, e, pool = ctx.op, ctx.entry, self.pool
        base = op['id'] * self.hs
        eff = e.effect
        if eff == 'rebind':
            hid = op['recv']['h']
            if kind_of(val) is not None:
                was = pool.handles.get(hid)
                pool.handles[hid] = val
                if id(val) not in pool.info:
                    pool.register(hid, val, pool.owner.get(hid, op['task']), born=op['id'])
                inf = pool.infoof(was)
                if inf is not None and inf.const and val is not was:
                    self.count('probe.const_alias_rebound')
            return
        # does the result (or an element of a result tuple) ALIAS one of the call's own arguments?
        res_objs = [val] + (list(val[:30]) if isinstance(val, (tuple, list)) else [])
        for x in res_objs:
            if kind_of(x) in (None, 'list', 'tuple'):
                continue
            if any(x is a for a in ctx.reach):
                self.count('probe.result_is_argument')
                self.alias_names[op['name']] = self.alias_names.get(op['name'], 0) + 1
                if not eff.startswith('mutator') and op['name'].split('#')[0].split('@')[0] not in PASS_THROUGH:
                    # O3.alias: a non-mutating call handed one of its own arguments back as (part of) its
                    # result: result and argument are one mutable object, so a documented mutator applied to
                    # either silently changes the other (same defect class as a cache handing out a shared
                    # object, with the caller's argument in the role of the cache)
                    self.violate('O3.alias', op, {'result_is_argument_of_kind': kind_of(x),
                                                   'value': snap(x)})
        items = [(0, val)]
        if isinstance(val, (tuple, list)):
            items = [(1 + i, x) for i, x in enumerate(val[:30])]
            if _has_list(val) and all(kind_of(x) in ('list', 'tuple') for x in reachable([val])):
                # a mutable container of plain values handed to the caller (e.g. the matrices of
                # JupiterMoons.check_phenomena): it is the caller's from now on, watch it (O1.pool)
                pool.register(base, val, op['task'], born=op['id'])
                inf = pool.infoof(val)
                if inf is not None:
                    inf.frozen = True
                self.count('probe.result_container_watched')
        for slot, x in items:
            if kind_of(x) in (None, 'list', 'tuple'):
                continue
            alias = pool.register(base + slot, x, op['task'], born=op['id'])
            if alias:
                self.count('probe.result_is_alias')
        if op['name'] in ('Minor.__init__', 'Minor.set'):
            target = val if op['name'] == 'Minor.__init__' else ctx.recv
            inf = pool.infoof(target)
            try:
                if inf is not None:
                    inf.minor = (float(ctx.args[1]), float(ctx.args[5].jde()))
            except Exception:
                pass
            # construction recipe (the object has no repr to rebuild a twin from): constructor arguments as
            # cloned at the time, then every documented mutator applied since
            if inf is not None:
                if op['name'] == 'Minor.__init__':
                    inf.recipe = [(op['name'], ctx.clones)]
                elif inf.recipe:
                    inf.recipe.append((op['name'], ctx.clones))

    # ------------------------------------------------------------ engines H / N
    def run_sequential(self):
        while True:
            op = self.src.next_top(self)
            if op is None:
                break
            if self.src.mode == 'gen':
                self.plan_ops.append(op)
            self.run_op(op, 0)
            if len(self.violations) > 20:
                break
        self.end_of_run()

    def module_check(self, op, when):
        d = module_digest(ops.MODS)
        self.count('module_digests')
        if d != self.import_digest and not self.module_reported:
            self.module_reported = True
            now = module_digest(ops.MODS, per_name=True)
            changed = sorted(k for k in now if now[k] != self.import_names.get(k))
            self.violate('O1.module', op, {'when': when, 'changed': changed[:10]}, blame='module-state')
        return d

    def end_of_run(self):
        self.pool_check(None, 'run-end')
        d = self.module_check(None, 'run-end')
        self.events.append(('end', d))

    # ------------------------------------------------------------ engine T
    def run_threads(self):
        n = self.cfg['ntasks']
        self.tcur = [None] * n
        self.tS = [[0, BUDGET, 0, NOCALL] for _ in range(n)]
        self.ttracer = [self._make_tracer(self.tS[i], i) for i in range(n)]
        self.sems = [threading.Semaphore(0) for _ in range(n)]
        self.alive = [True] * n
        self.done = threading.Semaphore(0)
        self.terr = []
        if self.src.mode == 'gen':
            self.plan_tasks = [[] for _ in range(n)]
        self.switches = 0

        def body(i):
            self.sems[i].acquire()
            try:
                while True:
                    op = self.src.t_op(self, i)
                    if op is None:
                        break
                    if self.src.mode == 'gen':
                        self.plan_tasks[i].append(op)
                    self.run_op(op, 0, self.tS[i], i)
                    if len(self.violations) > 20:
                        break
                    # end-of-op scheduling point
                    then = op.setdefault('then', {}) if self.src.mode == 'gen' else op.get('then', {})
                    self.t_switch(i, then, ('op-end', op['id']))
            except BaseException as ex:  # harness failure inside a task thread
                import traceback
                self.terr.append(traceback.format_exc())
            finally:
                self.alive[i] = False
                nxt = [j for j in range(n) if self.alive[j]]
                if not nxt:
                    self.done.release()
                else:
                    pt = {}
                    to = self.src.t_pick(self, nxt, self.fin_points.get(i, pt)) if self.src.mode == 'replay' \
                        else self.src.t_pick(self, nxt, pt)
                    if self.src.mode == 'gen':
                        self.fin_points[i] = {'to': to}
                    self.events.append(('fin', i, to))
                    self.sems[to].release()
        self.fin_points = dict((int(k), v) for k, v in (self.cfg.get('fin_points') or {}).items())
        ths = [threading.Thread(target=body, args=(i,), daemon=True) for i in range(n)]
        for t in ths:
            t.start()
        first = self.src.t_first(self, list(range(n)))
        self.first = first
        self.sems[first].release()
        self.done.acquire()
        for t in ths:
            t.join()
        if self.terr:
            raise RuntimeError('task thread failed:\n' + self.terr[0])
        self.end_of_run()

    def t_switch(self, me, pt, where):
        runnable = [j for j in range(len(self.alive)) if self.alive[j]]
        to = self.src.t_pick(self, runnable, pt)
        if self.src.mode == 'gen':
            pt['to'] = to
        self.events.append(('switch', me, to, where))
        if to == me:
            return
        self.switches += 1
        self.count('switches')
        self.sems[to].release()
        self.sems[me].acquire()

    def t_yield(self, task, ctx, pt, where):
        self.pool_check(ctx.op, 'pre-yield')
        # tracing is off inside this callback, so the other threads run while this one is parked
        self.t_switch(task, pt, (ctx.op['id'], pt.get('step', ('c', pt.get('call'))), where))
        for j, c in enumerate(self.tcur):
            if j != task and c is not None:
                self.sched_keys.add((ctx.op['name'], where[0], where[1], c.op['name']))
        self.pool_check(ctx.op, 'post-yield')
