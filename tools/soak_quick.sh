#!/bin/bash
# usage: soak_quick.sh <first seed> <last seed>   - run ./check quick under several VERIF_SEED values (output to a scratch
# dir, /verif/evidence untouched) and print one line per seed; any non-zero exit on the unchanged tree is a false alarm
# (or a harness error) to be investigated before anything else.
OUT=$(mktemp -d /var/tmp/soakq-XXXX)
for s in $(seq $1 $2); do
  VERIF_SEED=$s VERIF_OUT_DIR=$OUT/$s "$(dirname "$(readlink -f "$0")")/../check" quick > $OUT/$s.log 2>&1; rc=$?
  echo "seed $s rc=$rc $(tail -1 $OUT/$s.log | cut -c1-120)"
  if [ $rc -ne 0 ]; then grep -A1 "^VIOLATION\|^HARNESS" $OUT/$s.log | cut -c1-400; mkdir -p /verif/.work; cp -r $OUT/$s /verif/.work/soak-seed-$s 2>/dev/null; fi
done
rm -rf $OUT
