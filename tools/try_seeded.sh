#!/bin/bash
# usage: [TIER=thorough] try_seeded.sh <seeded-dir> [check args]   (seeded-dir holds patch.diff and demo.py)
# 1. confirm in a scratch worktree: tests still pass with the patch, demo fails with / passes without
# 2. run the check against that worktree with the patch applied (VERIF_REPO=<worktree>; same effect as
#    `git -C /repo apply` + check + `git -C /repo checkout -- .` but cannot disturb anything else that
#    reads /repo while it runs); output goes to a scratch dir; everything is removed afterwards
set -u
D=$(readlink -f "$1"); shift
WT=$(mktemp -d /var/tmp/wt-seeded-XXXX); rmdir $WT
git -C /repo worktree add -q --detach $WT HEAD || exit 2
cd $WT
git apply $D/patch.diff || { echo "PATCH DOES NOT APPLY"; cd /; git -C /repo worktree remove --force $WT; exit 2; }
T=$(/venv/bin/python -m pytest -q -p no:cacheprovider tests 2>&1 | tail -1); echo "tests with patch: $T"
mkdir -p _out; cp $D/demo.py _out/demo.py; sed -i "s#/tmp/wt-[a-z0-9-]*#$WT#g" _out/demo.py
/venv/bin/python _out/demo.py >/dev/null 2>&1; echo "demo with patch rc=$?"
git apply -R $D/patch.diff
/venv/bin/python _out/demo.py >/dev/null 2>&1; echo "demo without patch rc=$?"
git apply $D/patch.diff; rm -rf _out
cd /verif
OUT=$(mktemp -d /var/tmp/seeded-out-XXXX)
VERIF_REPO=$WT VERIF_OUT_DIR=$OUT /verif/check ${TIER:-quick} "$@" > $OUT/log 2>&1; RC=$?
git -C /repo worktree remove --force $WT
echo "check rc=$RC"; grep -c "^VIOLATION" $OUT/log; grep "^  O" $OUT/log | cut -c1-150 | sort | uniq -c | sort -rn | head -8; tail -2 $OUT/log
mkdir -p $D/check-output; cp $OUT/log $D/check-output/${TIER:-quick}.log
F=$(ls $OUT/replays/*.json 2>/dev/null | head -1); [ -n "$F" ] && cp $F $D/check-output/
rm -rf $OUT
