#!/bin/bash
# usage: regress_seeded.sh [ids...]   re-run ./check quick against every kept seeded change (scratch worktrees);
# prints one line per change: id, exit code of the check, number of VIOLATION lines
cd /verif
IDS="$@"; [ -z "$IDS" ] && IDS=$(ls seeded | sort -V)
for id in $IDS; do
  out=$(tools/try_seeded.sh seeded/$id 2>&1)
  rc=$(echo "$out" | grep -o "check rc=[0-9]*" | head -1)
  n=$(echo "$out" | grep -A1 "check rc=" | tail -1)
  echo "$id $rc violations=$n"
done
