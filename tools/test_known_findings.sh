#!/bin/bash
# Self-test of the known-findings interface: on a scratch copy with the old Angle.set defect planted,
#  (a) with an empty known-findings file the check must exit 1 with VIOLATION lines;
#  (b) with the two classes listed it must print KNOWN-FINDING lines and exit 0;
#  (c) with only one class listed it must still exit 1 for the other.
set -u
B=$(mktemp -d /var/tmp/known-XXXX)
cp -r /repo/pymeeus $B/pymeeus
/venv/bin/python - "$B" <<'PY'
import sys
p=sys.argv[1]+'/pymeeus/Angle.py'; s=open(p).read()
old='''                    value = deg[0]
                    if "radians" in kwargs:
                        if kwargs["radians"]:
                            # Input value is in radians. Convert to degrees
                            value = degrees(value)
                    self._deg = Angle.reduce_deg(value)'''
new='''                    if "radians" in kwargs:
                        if kwargs["radians"]:
                            # Input value is in radians. Convert to degrees
                            deg[0] = degrees(deg[0])
                    self._deg = Angle.reduce_deg(deg[0])'''
assert old in s; open(p,'w').write(s.replace(old,new))
PY
run() { VERIF_REPO=$B VERIF_OUT_DIR=$B/out VERIF_KNOWN_FILE=$1 /verif/check quick --runs=0.15 > $B/log 2>&1; echo "rc=$? violations=$(grep -c '^VIOLATION' $B/log) known=$(grep -c '^KNOWN-FINDING' $B/log)"; }
: > $B/k0; echo "(a) nothing listed:   $(run $B/k0)"
printf 'finding: property=C20 key=O1.arg|Angle.__init__ planted\nfinding: property=C20 key=O1.arg|Angle.set planted\nfinding: property=C20 key=O1.pool|pool:list planted\nfinding: property=C20 key=O1.pool|pool:tuple planted\n' > $B/k2
echo "(b) all listed:       $(run $B/k2)"; grep '^KNOWN-FINDING\|^VIOLATION' $B/log | cut -c1-110
printf 'finding: property=C20 key=O1.arg|Angle.set planted\n' > $B/k1
echo "(c) one listed:       $(run $B/k1)"
rm -rf $B
