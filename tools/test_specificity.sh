#!/bin/bash
# Specificity self-test: changes that break OTHER properties (numerics, formatting, calendars) but not C20 must
# not make the C20 check raise an alarm.  Each is planted in a scratch copy; expected: exit 0 every time.
set -u
HERE=$(dirname "$(readlink -f "$0")")/..
run() { # name file old new
  B=$(mktemp -d /var/tmp/spec-XXXX); cp -r /repo/pymeeus $B/pymeeus
  /venv/bin/python - "$B/pymeeus/$2" "$3" "$4" <<'PY'
import sys
p,old,new=sys.argv[1:4]; s=open(p).read()
assert s.count(old)>=1, 'pattern not found: '+old
open(p,'w').write(s.replace(old,new,1))
PY
  VERIF_REPO=$B VERIF_OUT_DIR=$B/out $HERE/check quick --runs=0.25 > $B/log 2>&1; rc=$?
  echo "$1: rc=$rc $(grep -c '^VIOLATION' $B/log) violations  $(grep '^VIOLATION\|^  O' $B/log | head -2 | cut -c1-160)"
  rm -rf $B
}
run vsop-last-term-dropped Coordinates.py "    for i in range(len(sum_list) - 1, 0, -1):
        lon = (lon + sum_list[i]) * t" "    for i in range(len(sum_list) - 2, 0, -1):
        lon = (lon + sum_list[i]) * t"
run obliquity-coefficient Coordinates.py "epsilon0 = Angle(23, 26, 21.448)" "epsilon0 = Angle(23, 26, 21.548)"
run dow-off-by-one Epoch.py "jd = iint(self._jde - 0.5) + 2.0" "jd = iint(self._jde - 0.5) + 3.0"
run dms-str-format Angle.py "return \"{}d {}' {}''\".format(int(sign * d), m, s)" "return \"{}d {}m {}s\".format(int(sign * d), m, s)"
run kepler-tolerance Coordinates.py "    while abs(e0 - ef) > TOL:" "    while abs(e0 - ef) > 1e-4:"
run root-bracket Interpolation.py "            if (yl * yh) > 0.0:" "            if (yl * yh) > 1e9:"
run easter-rule Epoch.py "            h = (19 * a + b - d - g + 15) % 30" "            h = (19 * a + b - d - g + 14) % 30"
run leap-table-value Epoch.py "2017.0: 27" "2017.0: 28"
